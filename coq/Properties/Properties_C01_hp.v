(** Properties C01 and C02 for xenium::reclamation::hazard_pointer<> (static allocation strategy), on the step-level
    model Model/HpDefs.v (tied to the code by trace correspondence against build/h_hp and build/h_recl_hp). *)
From Coq Require Import List.
From XV Require Import Conc.Lts Model.HpDefs Proof.HpNodes Proof.HpInv Proof.HpFlush.
Import ListNotations.

(** C01: in every reachable state (any number of threads, programs, schedules) a node held by a validated guard_ptr
    is not freed and sits in the hazard pointer slot of the guard; no dereference ever hit a destroyed node *)
Theorem C01_hp_safe :
  forall (ncells nslots : nat) (st : state),
  reach (init ncells) (step nslots) st ->
  (forall t g n, validated st t g n ->
     g_nfree st n = 0 /\ g_where st n <> PFreed /\
     exists b i, rcd (tl st t) = Some b /\ hp (gd (tl st t) g) = Some i /\ hz st b i = VObj (Some n))
  /\ g_uaf st = false.
Proof. exact hp_safe. Qed.
Print Assumptions C01_hp_safe.

(** C02: a node is freed at most once and only after it was retired (or, never published, deleted by its creator
    after a lost CAS); a retired node is at exactly one place: the retire list of one thread, the abandoned list
    (after the retiring thread has exited), the adopted list of one running scan, or freed *)
Theorem C02_hp_exactly_once :
  forall (ncells nslots : nat) (st : state),
  reach (init ncells) (step nslots) st ->
  forall n,
    g_nfree st n <= 1 /\
    (g_nfree st n = 1 -> retired st n \/ g_life st n = LDropped) /\
    (g_life st n = LDropped -> ~ retired st n /\ forall p, ~ at_place st n p \/ p = PFreed) /\
    (retired st n -> at_place st n (g_where st n) /\ forall p, at_place st n p -> p = g_where st n) /\
    (forall t, NoDup (rl (tl st t))) /\ NoDup (aband st) /\ (forall t, NoDup (ad_of (th st t))).
Proof. exact hp_exactly_once. Qed.
Print Assumptions C02_hp_exactly_once.

(** C02, eventual destruction: a scan that starts (after guard.reclaim() has retired a node, or at thread exit) while
    no guard owns a hazard pointer frees, within 6 + 4 * (number of control blocks) solo steps of the scanning thread,
    every node of its retire list and every abandoned node (the nodes handed over by exited threads); see
    Proof/HpFlush.v for the full statement and what is missing for it *)
Theorem C02_hp_no_leak_at_quiescence_partial :
  forall (ncells nslots : nat) (st : state) (t : nat) (k0 : sctx),
  reach (init ncells) (step nslots) st ->
  th st t = S0 k0 -> (forall u g, hp (gd (tl st u) g) = None) ->
  exists k st', k <= 6 + 4 * length (blist st) /\ srun nslots t k st st' /\
    match k0 with SRepl => th st' t = Idle | SExit => th st' t = X4 \/ th st' t = Done end /\
    rl (tl st' t) = [] /\ aband st' = [] /\
    forall n, In n (rl (tl st t)) \/ In n (aband st) -> g_where st' n = PFreed /\ g_nfree st' n = 1.
Proof. exact hp_no_leak_at_quiescence_partial. Qed.
Print Assumptions C02_hp_no_leak_at_quiescence_partial.
