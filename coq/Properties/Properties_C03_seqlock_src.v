(** C03 / C14 - seqlock over the weak-memory machine, instantiated with the memory orders GENERATED from
    xenium/seqlock.hpp on every run (gen/SeqlockOrders.v, tools/seqlockorders.py): property theorems
    (statements only).  A weakened order or fence in the source makes [orders_ok gen_orders = true] fail. *)
From Coq Require Import Arith NArith List Bool.
From XV Require Import WM.View WM.SeqlockWM WM.SeqlockWMProof gen.SeqlockOrders Proof.SeqlockOrdersOk.
Import ListNotations.

Theorem C03_seqlock_source_orders_ok : orders_ok gen_orders = true.
Proof. exact gen_orders_ok. Qed.
Print Assumptions C03_seqlock_source_orders_ok.

(** single slot (the default configuration): see Properties_C03_seqlock.v for the reading of the statement *)
Theorem C03_seqlock_source_weak_atomic : forall W, 1 <= W ->
  forall s, preach W gen_orders s ->
  (forall t c0 mq buf, pcs s t = RdDone c0 mq buf ->
     exists h,
       length buf = W /\
       (forall j m, nth_error buf j = Some m ->
          g_gen s j (m_ts m) = h /\ m_val m = nth j (nth h (g_hist s) []) 0%N) /\
       ret_gens s buf = repeat h W /\
       ret_vals buf = nth h (g_hist s) [] /\
       h < length (g_hist s) /\ h <= g_cur s /\
       2 * h <= last_ts (memory (ms s) seqL) /\
       m_ts mq = 2 * h /\
       c0 <= 2 * h) /\
  (forall t f q buf, pcs s t = WrRFence f q buf ->
     1 <= g_cur s /\ length (g_hist s) = g_cur s /\ length buf = W /\
     (forall j m, nth_error buf j = Some m -> g_gen s j (m_ts m) = g_cur s - 1) /\
     ret_gens s buf = repeat (g_cur s - 1) W /\
     ret_vals buf = nth (g_cur s - 1) (g_hist s) []) /\
  (forall t1 t2, locked (pcs s t1) = true -> locked (pcs s t2) = true -> t1 = t2).
Proof. exact source_weak_atomic. Qed.
Print Assumptions C03_seqlock_source_weak_atomic.
