(** C06 (with the C07 / C02 facts about the queue's own nodes) for xenium::kirsch_kfifo_queue<T*, reclaimer<GC>>, the
    UNBOUNDED k-FIFO queue: property theorems over the step-level model Model/KfqDefs.v (statements only; proofs in
    Proof/Kfq*.v).  Every theorem quantifies over all reachable states of [KfqDefs.step k], i.e. over every k >= 1, any
    number of threads, any program, any schedule and any values of the random start offsets (sequentially consistent
    interleavings; a retired segment is never reused -- the reclaimer protocol is verified elsewhere).
    Ghosts: [g_in] pointers whose insertion was finally committed (in commit order), [g_out] pointers taken by pops,
    [g_ok] pointers whose push returned, [g_segs] the segments ever linked (chain order), [g_retired] segments handed to
    the reclaimer, [g_freed] segments released by their allocator after a lost link CAS.
    [linked st x]: x is in [g_segs st]; [cinfo p]: (pointer, segment, slot, tag) of the insertion a pusher at pc p has
    made and not yet seen committed. *)
From Coq Require Import NArith List Permutation.
From XV Require Import Base.Word Conc.Lts Conc.Ev Model.KfqDefs.
From XV Require Import Proof.KfqWf Proof.KfqOwn Proof.KfqRegion Proof.KfqSeg Proof.KfqCons Proof.KfqCall Proof.KfqSeq Proof.KfqSolo Proof.KfqExamples.
Import ListNotations.
Local Open Scope N_scope.

(** conservation 1: no value is popped twice, every popped value was committed, a push that returned committed its
    value, every committed value is a token allocated by a push *)
Theorem C06_kfq_conservation : forall k, 1 <= k -> forall st, reach init (step k) st ->
  NoDup (g_out st) /\ NoDup (g_in st) /\ incl (g_out st) (g_in st) /\ incl (g_ok st) (g_in st) /\
  (forall b, In b (g_in st) -> 2 <= b < nalloc st).
Proof. exact kfq_conservation. Qed.
Print Assumptions C06_kfq_conservation.

(** conservation 2 (every reachable state): a committed value that was not popped is stored in exactly one slot, and
    that slot belongs to a linked segment between the head segment and the tail segment -- it is never lost and never
    stranded in a segment that was removed *)
Theorem C06_kfq_never_stranded : forall k, 1 <= k -> forall st b, reach init (step k) st ->
  In b (g_in st) -> ~ In b (g_out st) ->
  exists x j, linked st x /\ fst (head st) <= x <= fst (tail st) /\ j < k /\ fst (slot st x j) = b /\
    forall x' j', fst (slot st x' j') = b -> x' = x /\ j' = j.
Proof. exact kfq_never_stranded. Qed.
Print Assumptions C06_kfq_never_stranded.

Theorem C06_kfq_pushed_never_stranded : forall k, 1 <= k -> forall st b, reach init (step k) st ->
  In b (g_ok st) -> ~ In b (g_out st) ->
  exists x j, linked st x /\ fst (head st) <= x <= fst (tail st) /\ j < k /\ fst (slot st x j) = b.
Proof. exact kfq_pushed_never_stranded. Qed.
Print Assumptions C06_kfq_pushed_never_stranded.

(** conservation 3 (quiescence): the values in the slots of the segments from head on, together with the popped values,
    are exactly the committed values = the values whose push returned; no other slot holds a value *)
Theorem C06_kfq_quiescent : forall k, 1 <= k -> forall st, reach init (step k) st -> quiescent st ->
  Permutation (g_out st ++ stored k st) (g_in st) /\
  (forall b, In b (g_ok st) <-> In b (g_in st)) /\
  (forall x j, fst (slot st x j) <> 0 ->
     linked st x /\ fst (head st) <= x <= fst (tail st) /\ j < k /\
     In (fst (slot st x j)) (g_in st) /\ ~ In (fst (slot st x j)) (g_out st)).
Proof. exact kfq_quiescent. Qed.
Print Assumptions C06_kfq_quiescent.

(** what a returning pop did: its CAS took a pointer p out of a slot; the result is the payload written when the token p
    was allocated by a push; p had not been popped before *)
Theorem C06_kfq_pop_result : forall k, 1 <= k -> forall st a st' es u v, reach init (step k) st ->
  step k st a = Some (st', es) -> In (ERet u [1; v]) es ->
  exists r hd j p tg, a = Step u r /\ th st u = D4 hd j p tg /\ slot st (fst hd) j = (p, tg) /\ v = bval st p /\
    2 <= p < nalloc st /\ ~ In p (g_out st) /\ g_out st' = g_out st ++ [p] /\ In p (g_in st') /\ fst (slot st' (fst hd) j) = 0.
Proof. exact kfq_pop_result. Qed.
Print Assumptions C06_kfq_pop_result.

Theorem C06_kfq_push_result : forall k, 1 <= k -> forall st a st' es u, reach init (step k) st ->
  step k st a = Some (st', es) -> In (ERet u [1]) es ->
  exists r b, a = Step u r /\ pblock (th st u) = Some b /\ g_ok st' = g_ok st ++ [b] /\ In b (g_in st') /\ 2 <= b < nalloc st.
Proof. exact kfq_push_result. Qed.
Print Assumptions C06_kfq_push_result.

Theorem C06_kfq_payload_stable : forall k, 1 <= k -> forall st a st' es b, step k st a = Some (st', es) -> b < nalloc st -> bval st' b = bval st b.
Proof. exact kfq_payload_stable. Qed.
Print Assumptions C06_kfq_payload_stable.

(** k-relaxation 1: the value a pop takes (segment fst hd, slot j, word (q,tg)) was, at an instant s1 inside the call,
    in that slot of the segment head_ pointed to (head s1 = the head_ word the pop had read), and stayed there until
    the CAS *)
Theorem C06_kfq_pop_from_head_segment : forall k, 1 <= k -> forall u s0 s hd j q tg,
  reach init (step k) s0 -> in_call k u OPop s0 s -> th s u = D4 hd j q tg -> slot s (fst hd) j = (q, tg) ->
  exists s1, in_call k u OPop s0 s1 /\ reach_from (step k) s1 s /\
    head s1 = hd /\ slot s1 (fst hd) j = (q, tg) /\ q <> 0 /\ j < k.
Proof. exact kfq_pop_from_head_segment. Qed.
Print Assumptions C06_kfq_pop_from_head_segment.

(** k-relaxation 2 (segment form of "one of the k oldest"): a value that is committed when the pop's CAS takes it is
    taken from one of the k slots of the CURRENT head segment; every other committed value in the queue is in another
    slot of that segment (at most k-1) or in a later segment up to the tail segment.
    FULL statement (k-FIFO linearizability of the history) not proved. *)
Theorem C06_kfq_pop_k_relaxed_partial : forall k, 1 <= k -> forall st t hd j p tg, reach init (step k) st ->
  th st t = D4 hd j p tg -> slot st (fst hd) j = (p, tg) -> In p (g_in st) ->
  fst hd = fst (head st) /\ j < k /\ p <> 0 /\
  forall b, In b (g_in st) -> ~ In b (g_out st) -> b <> p ->
    exists x' j', (x' <> fst hd \/ j' <> j) /\ linked st x' /\ fst (head st) <= x' <= fst (tail st) /\ j' < k /\
                  fst (slot st x' j') = b.
Proof. exact kfq_pop_k_relaxed_partial. Qed.
Print Assumptions C06_kfq_pop_k_relaxed_partial.

(** k-relaxation 3: a value taken before it was committed (possibly from a segment head_ has already left) belongs to
    a push that is still inside committed(): the two calls overlap *)
Theorem C06_kfq_pop_uncommitted_overlaps : forall k, 1 <= k -> forall st t hd j p tg, reach init (step k) st ->
  th st t = D4 hd j p tg -> slot st (fst hd) j = (p, tg) -> ~ In p (g_in st) ->
  exists u, cinfo (th st u) = Some (p, fst hd, j, tg) /\ ~ In p (g_ok st).
Proof. exact kfq_pop_uncommitted_overlaps. Qed.
Print Assumptions C06_kfq_pop_uncommitted_overlaps.

(** 'empty' ([ERet u [2]]): at an instant inside the call head_ and tail_ pointed to the same segment and every
    committed value had been popped (stronger than "fewer than k values stored") *)
Theorem C06_kfq_empty_verdict : forall k, 1 <= k -> forall u s0 s a s' es,
  reach init (step k) s0 -> in_call k u OPop s0 s -> step k s a = Some (s', es) -> In (ERet u [2]) es ->
  exists s1, in_call k u OPop s0 s1 /\ reach_from (step k) s1 s' /\
    fst (head s1) = fst (tail s1) /\ empty_at s1.
Proof. exact kfq_empty_verdict. Qed.
Print Assumptions C06_kfq_empty_verdict.

(** the sequential clause: a pop that runs alone from a state in which every other thread is between operations returns
    within [kfq_pop_bound] = (tail segment number - head segment number + 1) * (k + 12) steps, whatever the random start
    offsets ([f]) are, and it answers 'empty' if and only if no committed value is in the queue *)
Theorem C06_kfq_sequential_pop : forall k, 1 <= k -> forall u s0 (f : state -> N),
  reach init (step k) s0 -> th s0 u = Begin OPop -> (forall t, t <> u -> th s0 t = Idle) ->
  exists n s s' es res, (n < kfq_pop_bound k s0)%nat /\ solof k u f s0 n s /\ step k s (Step u (f s)) = Some (s', es) /\
    th s' u = Idle /\ In (ERet u res) es /\ (res = [2] <-> empty_at s0).
Proof. exact kfq_sequential_pop. Qed.
Print Assumptions C06_kfq_sequential_pop.

Theorem C06_kfq_pop_bound_value : forall k s0,
  kfq_pop_bound k s0 = ((N.to_nat (fst (tail s0) - fst (head s0)) + 1) * (N.to_nat k + 12))%nat.
Proof. reflexivity. Qed.
Print Assumptions C06_kfq_pop_bound_value.

(** the verdict of ANY solo run of a pop that returns (the run above is one) *)
Theorem C06_kfq_solo_pop_verdict : forall k, 1 <= k -> forall u s0 s r s' es res,
  reach init (step k) s0 -> th s0 u = Begin OPop -> (forall t, t <> u -> th s0 t = Idle) ->
  solo k u s0 s -> step k s (Step u r) = Some (s', es) -> In (ERet u res) es ->
  (res = [2] <-> empty_at s0).
Proof. exact kfq_solo_pop_verdict. Qed.
Print Assumptions C06_kfq_solo_pop_verdict.

(** ownership of the segments (C07 / C02 for the queue's own nodes): the chain has no duplicates and contains head_ and
    tail_ (never null, head_ not after tail_); a segment is retired exactly when head_ has left it, and exactly once;
    a retired segment is marked deleted and every value still found in it is an uncommitted insertion whose pusher is
    inside committed(); a segment released by its allocator was never linked, is not retired, never held a value *)
Theorem C06_kfq_segments : forall k, 1 <= k -> forall st, reach init (step k) st ->
  NoDup (g_segs st) /\ NoDup (g_retired st) /\ NoDup (g_freed st) /\
  linked st (fst (head st)) /\ linked st (fst (tail st)) /\ 1 <= fst (head st) <= fst (tail st) /\
  (forall x, In x (g_retired st) <-> linked st x /\ x < fst (head st)) /\
  (forall x, In x (g_retired st) -> del st x = true /\
     forall j b tg, slot st x j = (b, tg) -> b <> 0 ->
       ~ In b (g_in st) /\ exists t, cinfo (th st t) = Some (b, x, j, tg)) /\
  (forall x, In x (g_freed st) -> ~ linked st x /\ ~ In x (g_retired st) /\ forall j, fst (slot st x j) = 0).
Proof. exact kfq_segments. Qed.
Print Assumptions C06_kfq_segments.

(** the chain: [next] of the last linked segment is null, every other linked segment points to the next larger one *)
Theorem C06_kfq_chain : forall k, 1 <= k -> forall st, reach init (step k) st ->
  linked st (glast st) /\ nxt st (glast st) = (0, 0) /\ (forall x, linked st x -> x <= glast st) /\
  (fst (tail st) = glast st \/ fst (nxt st (fst (tail st))) = glast st) /\
  (forall x, linked st x -> x <> glast st ->
     exists n, nxt st x = (n, 1) /\ linked st n /\ x < n /\ forall x', linked st x' -> x < x' -> n <= x').
Proof. exact kfq_chain. Qed.
Print Assumptions C06_kfq_chain.

(** finding (dead code): the tail-helping CAS (9) of advance_head is never reached and the load (8) before it never
    returns null, because advance_head is entered with head == tail segment only after tail_ was seen changed *)
Theorem C06_kfq_advance_head_dead_code : forall k, 1 <= k -> forall st, reach init (step k) st ->
  (forall t hd tl hn tn, th st t <> H5 hd tl hn tn) /\
  (forall t hd tl hn, th st t = H3 hd tl hn -> fst (nxt st (fst tl)) <> 0).
Proof. exact kfq_advance_head_dead_code. Qed.
Print Assumptions C06_kfq_advance_head_dead_code.

(** the hypotheses of the theorems above are satisfiable: concrete reachable states (schedules replayed by the real code) *)
Theorem C06_kfq_example_quiescent :
  reach init (step 1) (st_of 1 ex_q) /\ quiescent (st_of 1 ex_q) /\
  g_in (st_of 1 ex_q) = [2; 3] /\ g_out (st_of 1 ex_q) = [2] /\ g_ok (st_of 1 ex_q) = [2; 3] /\
  stored 1 (st_of 1 ex_q) = [3] /\ g_segs (st_of 1 ex_q) = [1; 4] /\ head (st_of 1 ex_q) = (1, 1) /\ tail (st_of 1 ex_q) = (4, 1) /\
  In 3 (g_in (st_of 1 ex_q)) /\ ~ In 3 (g_out (st_of 1 ex_q)) /\ In 3 (g_ok (st_of 1 ex_q)).
Proof. exact ex_quiescent. Qed.
Print Assumptions C06_kfq_example_quiescent.

Theorem C06_kfq_example_pop_committed :
  reach init (step 2) (st_of 2 ex_p) /\ th (st_of 2 ex_p) 2%nat = D4 (1, 2) 1 2 1 /\
  slot (st_of 2 ex_p) 1 1 = (2, 1) /\ In 2 (g_in (st_of 2 ex_p)) /\
  In 3 (g_in (st_of 2 ex_p)) /\ ~ In 3 (g_out (st_of 2 ex_p)) /\ slot (st_of 2 ex_p) 1 0 = (3, 1).
Proof. exact ex_pop_committed. Qed.
Print Assumptions C06_kfq_example_pop_committed.

Theorem C06_kfq_example_pop_uncommitted :
  reach init (step 1) (st_of 1 ex_f3) /\ th (st_of 1 ex_f3) 2%nat = D4 (1, 0) 0 2 1 /\
  slot (st_of 1 ex_f3) 1 0 = (2, 1) /\ ~ In 2 (g_in (st_of 1 ex_f3)) /\
  th (st_of 1 ex_f3) 1%nat = C1 2 (1, 0) 0 1 /\
  g_retired (st_of 1 ex_f3) = [1] /\ head (st_of 1 ex_f3) = (3, 1) /\ del (st_of 1 ex_f3) 1 = true /\ g_segs (st_of 1 ex_f3) = [1; 3].
Proof. exact ex_pop_uncommitted. Qed.
Print Assumptions C06_kfq_example_pop_uncommitted.

Theorem C06_kfq_example_released_segment :
  reach init (step 1) (st_of 1 ex_f2) /\ g_freed (st_of 1 ex_f2) = [6] /\ g_segs (st_of 1 ex_f2) = [1; 4] /\
  In (EFree 2 6) (tr_of 1 ex_f2).
Proof. exact ex_released_segment. Qed.
Print Assumptions C06_kfq_example_released_segment.

Theorem C06_kfq_example_advance_head_same_segment :
  reach init (step 1) (st_of 1 ex_f1) /\ th (st_of 1 ex_f1) 1%nat = H3 (1, 0) (1, 0) (4, 1) /\ tail (st_of 1 ex_f1) = (4, 1).
Proof. exact ex_advance_head_same_segment. Qed.
Print Assumptions C06_kfq_example_advance_head_same_segment.

Theorem C06_kfq_example_empty_call :
  reach init (step 2) ex_e0 /\ th ex_e0 1%nat = Begin OPop /\ (forall t, t <> 1%nat -> th ex_e0 t = Idle) /\ empty_at ex_e0 /\
  exists s s' es, in_call 2 1 OPop ex_e0 s /\ solo 2 1 ex_e0 s /\ step 2 s (Step 1 0) = Some (s', es) /\ In (ERet 1%nat [2]) es.
Proof. exact ex_empty_call. Qed.
Print Assumptions C06_kfq_example_empty_call.
