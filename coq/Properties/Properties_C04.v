(** C04 - FIFO queues: property theorems (statements only; proofs live in Proof/MsqInv.v).
    [MsqDefs] is the step-level model of michael_scott_queue (over a reclaimer that never reuses a
    referenced node = what C01 guarantees), tied to the code by trace correspondence on every run.
    [chain st]: the nodes reachable from head; [g_in]/[g_out]: values in linearization order of the
    link CAS / head CAS. *)
From Coq Require Import NArith List.
From XV Require Import Base.Word Conc.Lts Conc.Ev Model.MsqDefs Proof.MsqInv.
Import ListNotations.
Local Open Scope N_scope.

(** structural invariant: head-to-null chain, no cycles, tail lags by at most one node *)
Theorem C04_msq_chain : forall st, reach init step st ->
  hd 0 (chain st) = head st /\
  (forall i, (S i < length (chain st))%nat -> nth (S i) (chain st) 0 = nnext st (nth i (chain st) 0)) /\
  nnext st (last (chain st) 0) = 0 /\
  NoDup (chain st) /\
  (forall x, In x (chain st) -> x <> 0 /\ x < nalloc st) /\
  (exists l0, chain st = l0 ++ [tail st] \/ exists x, chain st = l0 ++ [tail st; x]).
Proof. exact msq_chain. Qed.
Print Assumptions C04_msq_chain.

(** MAIN RESULT (any number of threads, any program, any schedule): the values dequeued so far followed
    by the values currently in the queue are exactly the values enqueued so far, in linearization order:
    nothing lost, duplicated or invented, FIFO order *)
Theorem C04_msq_fifo : forall st, reach init step st ->
  g_in st = g_out st ++ map (nval st) (tl (chain st)).
Proof. exact msq_fifo. Qed.
Print Assumptions C04_msq_fifo.

(** a successful pop returns the oldest value not yet dequeued, and only the head CAS (D6) returns values *)
Theorem C04_msq_pop_value : forall st a st' es t x, reach init step st ->
  step st a = Some (st', es) -> In (ERet t [1; x]) es ->
  x = nth (length (g_out st)) (g_in st) 0 /\
  g_out st' = g_out st ++ [x] /\ g_in st' = g_in st /\
  (exists h nx, a = Step t /\ th st t = D6 h nx /\ head st = h /\ head st' = nx /\ x = nval st nx /\
                exists r, chain st = h :: nx :: r).
Proof. exact msq_pop_value. Qed.
Print Assumptions C04_msq_pop_value.

(** 'empty' is reported only if the queue was empty at an instant inside the call: in the last loop
    iteration of a pop that answers empty (D1 load, others run, D2 load, others run, D3 load) the head
    did not change and at the D2 instant the queue consisted of the dummy node only *)
Theorem C04_msq_empty_lp : forall t s0 sa s1 sb s2 s3 ea eb ec,
  reach init step s0 -> th s0 t = D1 ->
  step s0 (Step t) = Some (sa, ea) -> run_others t sa s1 ->
  step s1 (Step t) = Some (sb, eb) -> run_others t sb s2 ->
  step s2 (Step t) = Some (s3, ec) -> In (ERet t [0]) ec ->
  th s1 t = D2 (head s0) /\ th s2 t = D3 (head s0) 0 /\ head s1 = head s0 /\
  nnext s1 (head s1) = 0 /\ head s2 = head s0 /\ chain s1 = [head s1] /\ g_in s1 = g_out s1.
Proof. exact msq_empty_lp_thread. Qed.
Print Assumptions C04_msq_empty_lp.

(** head never returns to an earlier node (no ABA on head under the reclaimer assumption) *)
Theorem C04_msq_head_no_aba : forall s0 s1 s2, reach init step s0 ->
  reach_from step s0 s1 -> reach_from step s1 s2 -> head s2 = head s0 ->
  head s1 = head s0 /\ g_retired s1 = g_retired s0 /\ g_retired s2 = g_retired s0.
Proof. exact msq_head_no_aba. Qed.
Print Assumptions C04_msq_head_no_aba.

(** non-vacuity: two threads, a pop about to CAS the head *)
Example C04_nonvacuous :
  let acts := [Start 1%nat (OPush 7); Step 1%nat; Step 1%nat; Step 1%nat; Step 1%nat; Step 1%nat;
               Start 2%nat OPop; Step 2%nat; Step 2%nat; Step 2%nat; Step 2%nat; Step 2%nat] in
  let st := fst (fst (run step init acts)) in
  th st 2%nat = D6 1 2 /\ g_in st = [7] /\ g_out st = [].
Proof. vm_compute. repeat split; reflexivity. Qed.

(** nikolaev_queue / nikolaev_scq index arithmetic, GENERATED from xenium/detail/nikolaev_scq.hpp (gen/ScqGen.v):
    the cache-line remapping is a bijection on the ring positions, so two tickets of one round never share a slot
    and every slot is used; the ticket comparison is a correct signed comparison while tickets are < 2^63 apart *)
From Coq Require Import Bool.
From XV Require Import gen.ScqGen Proof.ScqIndex.
Local Open Scope N_scope.

Theorem C04_scq_remap_bijective : forall m, 1 <= m <= 41 ->
  let n := 2 ^ m in
  let shift := if m <=? 3 then 0 else m - 3 in
  shift = calc_remap_shift (n / 2) /\
  (forall p1 p2, p1 < n -> p2 < n ->
     remap_index (2 * p1) shift n = remap_index (2 * p2) shift n -> p1 = p2) /\
  (forall y, y < n -> exists p, p < n /\ remap_index (2 * p) shift n = y) /\
  (forall idx, remap_index idx shift n = remap_index (2 * ((idx / 2) mod n)) shift n).
Proof. exact remap_index_bijective. Qed.
Print Assumptions C04_scq_remap_bijective.

Theorem C04_scq_diff_signed : forall a b, a < 2 ^ 64 -> b < 2 ^ 64 ->
  a < b + 2 ^ 63 -> b < a + 2 ^ 63 ->
  slt 64 (diff a b) 0 = true <-> a < b.
Proof. exact diff_signed. Qed.
Print Assumptions C04_scq_diff_signed.

(** ramalhete_queue entry index arithmetic, GENERATED from xenium/ramalhete_queue.hpp (gen/RamalheteNodeGen.v):
    a ticket j of a node uses entry (step_size * j) mod entries_per_node with step_size = [C_step_size E]
    (1 if 11 divides E, else 11); within one node distinct tickets use distinct entries, for every node size *)
From XV Require Import gen.RamalheteNodeGen Proof.RamalheteNode.
Local Open Scope N_scope.

Theorem C04_ramalhete_slots_distinct : forall E j1 j2,
  0 < E -> C_step_size E * E < 2 ^ 32 -> j1 < E -> j2 < E ->
  (C_step_size E * j1) mod E = (C_step_size E * j2) mod E -> j1 = j2.
Proof. exact slots_distinct. Qed.
Print Assumptions C04_ramalhete_slots_distinct.

(** documentation of the repaired defect: with the former unconditional step_size = 11 two tickets of one
    node share an entry (E = 11: every ticket maps to entry 0) *)
Theorem C04_ramalhete_old_step_collides : exists E j1 j2,
  0 < E /\ j1 < E /\ j2 < E /\ j1 <> j2 /\ (11 * j1) mod E = (11 * j2) mod E.
Proof. exact old_step_collides. Qed.
Print Assumptions C04_ramalhete_old_step_collides.
