(** C04 - FIFO queues: property theorems (statements only; proofs live in Proof/). *)
From Coq Require Import NArith List.
From XV Require Import Base.Word Conc.Lts Model.MsqDefs.
Import ListNotations.
Local Open Scope N_scope.

(** sanity obligation on the model (extended by Proof/MsqInv.v): an empty queue is a lone dummy node *)
Theorem C04_msq_init : head init = tail init /\ nnext init (head init) = 0 /\ g_in init = [] /\ g_out init = [].
Proof. repeat split; reflexivity. Qed.
Print Assumptions C04_msq_init.
