(** C03 - C++ memory model: property theorems (statements only; proofs in Proof/SyncTableOk.v and WM/).
    [sites] is GENERATED from the numbered synchronisation comments of all xenium headers together with the
    memory orders written at the annotated statements (tools/synctable.py), on every run. *)
From Coq Require Import NArith List Bool.
From XV Require Import gen.SyncTable Proof.SyncTableOk.
Local Open Scope N_scope.

(** every annotated site carries an order at least as strong as its annotation demands (production and
    TSan build variant), every declared synchronizes-with / total-order pair is release-class -> acquire-class
    (or seq_cst <-> seq_cst) and refers to an existing site *)
Theorem C03_sync_table : table_ok = true.
Proof. exact sync_table_ok. Qed.
Print Assumptions C03_sync_table.

Theorem C03_sync_table_covers : (200 <=? N.of_nat (length sites)) = true.
Proof. exact sync_table_nonempty. Qed.
Print Assumptions C03_sync_table_covers.

(** ---------------------------------------------------------------------------------------------
    The weak-memory machine (WM/View.v) that rt/xvrt implements in --weak mode: a view-based
    release/acquire + fences + seq_cst machine.  The theorems below are what the exploration relies on:
    the machine is well formed, coherent, gives exactly the synchronisation the C++ rules promise
    (message passing through release/acquire, through fences, through release sequences; store
    buffering only excluded by seq_cst fences; seq_cst accesses totally ordered), contains every
    sequentially consistent execution, and really is weak (litmus examples). *)
From XV Require Import WM.View WM.ViewLemmas.
Import ListNotations.
Local Close Scope N_scope.

Theorem C03_wm_wf : forall s, reachable s -> wf s.
Proof. exact wf_reachable. Qed.
Print Assumptions C03_wm_wf.

Theorem C03_wm_views_monotone : forall s s', reachable s -> steps s s' -> mono s s'.
Proof. exact view_monotone_full. Qed.
Print Assumptions C03_wm_views_monotone.

Theorem C03_wm_coherence_rr : forall s t l o m s1 s2 o' m' s3,
  reachable s ->
  step s t (LLoad l o m) s1 -> steps s1 s2 -> step s2 t (LLoad l o' m') s3 ->
  m_ts m <= m_ts m'.
Proof. exact coherence_rr. Qed.
Print Assumptions C03_wm_coherence_rr.

Theorem C03_wm_coherence_wr : forall s t l o v s1 s2 o' m s3,
  reachable s ->
  step s t (LStore l o v) s1 -> steps s1 s2 -> step s2 t (LLoad l o' m) s3 ->
  S (last_ts (memory s l)) <= m_ts m.
Proof. exact coherence_wr. Qed.
Print Assumptions C03_wm_coherence_wr.

Theorem C03_wm_message_passing : forall s t2 y o my s' x kx,
  reachable s -> In my (memory s y) -> kx <= m_view my x ->
  step s t2 (LLoad y o my) s' -> is_acq o = true ->
  kx <= cur (threads s' t2) x.
Proof. exact message_passing. Qed.
Print Assumptions C03_wm_message_passing.

Theorem C03_wm_message_passing_fences :
  forall s0 t1 x ox vx s1 s2 f1 s3 s4 y oy vy s5 s6 t2 o my s7 s8 f2 s9,
  reachable s0 ->
  step s0 t1 (LStore x ox vx) s1 -> steps s1 s2 ->
  step s2 t1 (LFence f1) s3 -> is_rel f1 = true -> steps s3 s4 ->
  step s4 t1 (LStore y oy vy) s5 -> steps s5 s6 ->
  step s6 t2 (LLoad y o my) s7 -> m_ts my = S (last_ts (memory s4 y)) -> steps s7 s8 ->
  step s8 t2 (LFence f2) s9 -> is_acq f2 = true ->
  S (last_ts (memory s0 x)) <= cur (threads s9 t2) x.
Proof. exact message_passing_fences. Qed.
Print Assumptions C03_wm_message_passing_fences.

Theorem C03_wm_release_sequence : forall y my s m',
  rs_from y my s m' ->
  In m' (memory s y) /\ forall l, m_view my l <= m_view m' l.
Proof. exact release_sequence. Qed.
Print Assumptions C03_wm_release_sequence.

Theorem C03_wm_store_buffering_sc_fences :
  forall s tr t1 t2 x y o1 v1 o2 v2 i1 j1 r1 ol1 m1 i2 j2 r2 ol2 m2,
  reachable s -> valid s tr ->
  nth_error tr i1 = Some (t1, LStore x o1 v1) ->
  nth_error tr j1 = Some (t1, LFence SC) -> i1 < j1 ->
  nth_error tr r1 = Some (t1, LLoad y ol1 m1) -> j1 < r1 ->
  nth_error tr i2 = Some (t2, LStore y o2 v2) ->
  nth_error tr j2 = Some (t2, LFence SC) -> i2 < j2 ->
  nth_error tr r2 = Some (t2, LLoad x ol2 m2) -> j2 < r2 ->
  S (last_ts (memory (state_at s tr i2) y)) <= m_ts m1 \/
  S (last_ts (memory (state_at s tr i1) x)) <= m_ts m2.
Proof. exact store_buffering_sc_fences_loads. Qed.
Print Assumptions C03_wm_store_buffering_sc_fences.

Theorem C03_wm_sc_accesses_total_order : forall s t1 x v s1 s2 t2 m s3,
  reachable s -> step s t1 (LStore x SC v) s1 -> steps s1 s2 -> step s2 t2 (LLoad x SC m) s3 ->
  S (last_ts (memory s x)) <= m_ts m.
Proof. exact sc_accesses_total_order. Qed.
Print Assumptions C03_wm_sc_accesses_total_order.

(** every sequentially consistent execution is an execution of the weak machine: what is safe on all weak
    executions is safe on all interleavings *)
Theorem C03_wm_contains_sc : forall s, sc_reachable s -> reachable s.
Proof. exact sc_reachable_reachable. Qed.
Print Assumptions C03_wm_contains_sc.

(** non-vacuity: store buffering is observable without seq_cst fences (even with release/acquire), a relaxed
    flag load does not pass the message on, an acquire load does *)
Theorem C03_wm_sb_relacq_allowed :
  valid init [ (1, LStore 0 Rel 1%N); (2, LStore 1 Rel 1%N);
               (1, LLoad 1 Acq init_msg); (2, LLoad 0 Acq init_msg) ].
Proof. exact sb_relacq_allowed. Qed.
Print Assumptions C03_wm_sb_relacq_allowed.

Theorem C03_wm_mp_relaxed_allowed :
  let s2 := run init [ (1, LStore 0 Rlx 1%N); (1, LStore 1 Rel 1%N) ] in
  valid s2 [ (2, LLoad 1 Rlx (last_msg (memory s2 1))); (2, LLoad 0 Rlx init_msg) ] /\
  m_val (last_msg (memory s2 1)) = 1%N.
Proof. exact mp_relaxed_allowed. Qed.
Print Assumptions C03_wm_mp_relaxed_allowed.

Theorem C03_wm_mp_acquire_forbidden :
  let s2 := run init [ (1, LStore 0 Rlx 1%N); (1, LStore 1 Rel 1%N) ] in
  ~ valid s2 [ (2, LLoad 1 Acq (last_msg (memory s2 1))); (2, LLoad 0 Rlx init_msg) ].
Proof. exact mp_acquire_forbidden. Qed.
Print Assumptions C03_wm_mp_acquire_forbidden.
