(** C06 (and C16) for xenium::kirsch_bounded_kfifo_queue<T*>: property theorems over the step-level model
    Model/KfbDefs.v (statements only; proofs in Proof/Kfb*.v).  Every theorem quantifies over all reachable
    states of [KfbDefs.step k segs], i.e. over every k >= 1, every num_segments >= 1, any number of threads,
    any program, any schedule and any values of the random start offsets (sequentially consistent
    interleavings).  Ghosts: [g_in] pointers whose insertion was finally committed (in commit order), [g_out]
    pointers taken by pops, [g_ok] pointers whose try_push returned true, [g_hist j] history of slot j. *)
From Coq Require Import NArith List Permutation.
From XV Require Import Base.Word Conc.Lts Conc.Ev Conc.Solo Model.KfbDefs gen.KirschIdxGen.
From XV Require Import Proof.KfbArith Proof.KfbWf Proof.KfbOwn Proof.KfbRing Proof.KfbRegion Proof.KfbCons Proof.KfbCall Proof.KfbInv Proof.KfbSolo.
Import ListNotations.
Local Open Scope N_scope.

(** conservation 1: no value is popped twice, every popped value was committed, a push that returned true
    committed its value, every committed value is a token allocated by a push *)
Theorem C06_kfb_conservation : forall k segs, 1 <= k -> 1 <= segs -> forall st, reach init (step k segs) st ->
  NoDup (g_out st) /\ NoDup (g_in st) /\ incl (g_out st) (g_in st) /\ incl (g_ok st) (g_in st) /\
  (forall b, In b (g_in st) -> 2 <= b < nalloc st).
Proof. exact kfb_conservation. Qed.
Print Assumptions C06_kfb_conservation.

(** conservation 2 (every reachable state): a committed value that was not popped is stored in exactly one
    slot, and that slot lies in a segment between head and tail ([inreg]: cyclic distance from the head
    segment not larger than that of the tail segment) -- it is never lost and never stranded *)
Theorem C06_kfb_never_stranded : forall k segs, 1 <= k -> 1 <= segs -> forall st b, reach init (step k segs) st ->
  In b (g_in st) -> ~ In b (g_out st) ->
  exists j, j < qsize k segs /\ fst (slot st j) = b /\ inreg k segs st j /\ forall j', fst (slot st j') = b -> j' = j.
Proof. exact kfb_never_stranded. Qed.
Print Assumptions C06_kfb_never_stranded.

Theorem C06_kfb_pushed_never_stranded : forall k segs, 1 <= k -> 1 <= segs -> forall st b, reach init (step k segs) st ->
  In b (g_ok st) -> ~ In b (g_out st) ->
  exists j, j < qsize k segs /\ fst (slot st j) = b /\ inreg k segs st j.
Proof. exact kfb_pushed_never_stranded. Qed.
Print Assumptions C06_kfb_pushed_never_stranded.

(** conservation 3 (quiescence): the values in the slots between head and tail together with the popped values
    are exactly the committed values = the values whose push returned true; no other slot holds a value *)
Theorem C06_kfb_quiescent : forall k segs, 1 <= k -> 1 <= segs -> forall st, reach init (step k segs) st -> quiescent st ->
  Permutation (g_out st ++ stored k segs st) (g_in st) /\
  (forall b, In b (g_ok st) <-> In b (g_in st)) /\
  (forall j, fst (slot st j) <> 0 ->
     j < qsize k segs /\ inreg k segs st j /\ In (fst (slot st j)) (g_in st) /\ ~ In (fst (slot st j)) (g_out st)).
Proof. exact kfb_quiescent. Qed.
Print Assumptions C06_kfb_quiescent.

(** k-relaxation 1: the value a pop takes (slot j, word (q,tg)) was, at an instant s1 inside the call, in a slot
    of the segment head pointed to (head s1 = the head word the pop had read), and stayed there until the CAS *)
Theorem C06_kfb_pop_from_head_segment : forall k segs, 1 <= k -> 1 <= segs -> forall u s0 s hd j q tg,
  reach init (step k segs) s0 -> in_call k segs u OPop s0 s -> th s u = D4 hd j q tg -> slot s j = (q, tg) ->
  exists s1, in_call k segs u OPop s0 s1 /\ reach_from (step k segs) s1 s /\
    head s1 = hd /\ slot s1 j = (q, tg) /\ q <> 0 /\ j < qsize k segs /\ sg k j = hs k s1.
Proof. exact kfb_pop_from_head_segment. Qed.
Print Assumptions C06_kfb_pop_from_head_segment.

(** k-relaxation 2: head cannot leave a segment that stores a committed value *)
Theorem C06_kfb_pop_committed_in_current_head : forall k segs, 1 <= k -> 1 <= segs -> forall s1 s j q tg,
  reach init (step k segs) s1 -> reach_from (step k segs) s1 s -> slot s1 j = (q, tg) -> slot s j = (q, tg) ->
  In q (g_in s1) -> j < qsize k segs -> sg k j = hs k s1 -> hs k s = hs k s1 /\ In q (g_in s).
Proof. exact kfb_pop_committed_in_current_head. Qed.
Print Assumptions C06_kfb_pop_committed_in_current_head.

(** k-relaxation 3 (segment form of "one of the k oldest"): a value that was committed when the pop chose it is
    taken from one of the k slots of the CURRENT head segment; every other committed value in the queue is in
    another slot of that segment (at most k-1) or in a later segment up to the tail segment.
    FULL statement (k-FIFO linearizability of the history) not proved: see Proof/KfbCall.v. *)
Theorem C06_kfb_pop_k_relaxed_partial : forall k segs, 1 <= k -> 1 <= segs -> forall s1 s j q tg,
  reach init (step k segs) s1 -> reach_from (step k segs) s1 s -> slot s1 j = (q, tg) -> slot s j = (q, tg) ->
  In q (g_in s1) -> j < qsize k segs -> sg k j = hs k s1 ->
  (fst (head s) <= j < fst (head s) + k) /\
  forall b, In b (g_in s) -> ~ In b (g_out s) -> b <> q ->
    exists j', j' <> j /\ j' < qsize k segs /\ fst (slot s j') = b /\
      ((fst (head s) <= j' < fst (head s) + k) \/
       (1 <= dist segs (hs k s) (sg k j') /\ dist segs (hs k s) (sg k j') <= dist segs (hs k s) (ts k s))).
Proof. exact kfb_pop_k_relaxed_partial. Qed.
Print Assumptions C06_kfb_pop_k_relaxed_partial.

(** 'empty' ([ERet u [2]]): at an instant inside the call head and tail pointed to the same segment and every
    committed value had been popped (stronger than "fewer than k values stored") *)
Theorem C06_kfb_empty_verdict : forall k segs, 1 <= k -> 1 <= segs -> forall u s0 s a s' es,
  reach init (step k segs) s0 -> in_call k segs u OPop s0 s -> step k segs s a = Some (s', es) -> In (ERet u [2]) es ->
  exists s1, in_call k segs u OPop s0 s1 /\ reach_from (step k segs) s1 s' /\
    fst (head s1) = fst (tail s1) /\ (forall b, In b (g_in s1) -> In b (g_out s1)).
Proof. exact kfb_empty_verdict. Qed.
Print Assumptions C06_kfb_empty_verdict.

(** 'full' ([ERet u [0]]), the part that holds: at the instant of the final re-check of head the ring has no free
    segment (tail + k == head modulo the ring size), head is unchanged since try_push read it, and the rejected
    value is nowhere in the queue.  The C06 clause "at least (segs-1)*k+1 values stored" is false: next theorem. *)
Theorem C06_kfb_full_verdict_partial : forall k segs, 1 <= k -> 1 <= segs -> forall u s a s' es,
  reach init (step k segs) s -> step k segs s a = Some (s', es) -> In (ERet u [0]) es ->
  exists r b tl hd, a = Step u r /\ th s u = PH b tl hd /\ head s = hd /\
    (fst (tail s) + k) mod qsize k segs = fst (head s) /\ dist segs (hs k s) (ts k s) = segs - 1 /\
    ~ In b (g_in s) /\ (forall j, fst (slot s j) <> b).
Proof. exact kfb_full_verdict_partial. Qed.
Print Assumptions C06_kfb_full_verdict_partial.

(** recorded finding C06-kfb-premature-full-after-rollback on the model (k = 1, 2 segments, schedule [ex_full],
    replayed identically by the real code): T3's push answers 'full' although in every state of the run at most
    1 < (2-1)*1+1 committed values are stored; the slot that made the queue look full held T1's insertion, which
    T1 then takes back *)
Theorem C06_kfb_premature_full_refuted :
  In (ERet 3%nat [0]) (tr_of 1 2 ex_full) /\
  (forall n, (committed_stored (st_of 1 2 (firstn n ex_full)) <= 1)%nat) /\
  (1 < (2 - 1) * 1 + 1) /\
  g_hist (st_of 1 2 ex_full_back) 0 = [HIns 2; HBack 2] /\ th (st_of 1 2 ex_full_back) 1%nat = P1 2.
Proof. exact kfb_premature_full_refuted. Qed.
Print Assumptions C06_kfb_premature_full_refuted.

(** slot tags: the tag of a slot is the number of its changes, its pointer the last insertion not yet removed *)
Theorem C06_kfb_slot_history : forall k segs, 1 <= k -> 1 <= segs -> forall st, reach init (step k segs) st ->
  forall j, snd (slot st j) = N.of_nat (length (g_hist st j)) /\ fst (slot st j) = cur (g_hist st j).
Proof. exact kfb_hist_inv. Qed.
Print Assumptions C06_kfb_slot_history.

(** tie to the generated marked_idx: with k * num_segments < 2^32 head / tail indices fit the index field, and
    (index, tag) pairs below 2^32 are determined by the 64-bit word the code compares *)
Theorem C06_kfb_index_fits : forall k segs, 1 <= k -> 1 <= segs -> k * segs < 2 ^ 32 ->
  forall st, reach init (step k segs) st -> fst (head st) < 2 ^ 32 /\ fst (tail st) < 2 ^ 32.
Proof. exact head_idx_small. Qed.
Print Assumptions C06_kfb_index_fits.

Theorem C06_kfb_word_determines_pair : forall a b : iw,
  fst a < 2 ^ 32 -> fst b < 2 ^ 32 -> snd a < 2 ^ 32 -> snd b < 2 ^ 32 ->
  mk_idx (fst a) (snd a) = mk_idx (fst b) (snd b) -> a = b.
Proof. exact iwv_inj. Qed.
Print Assumptions C06_kfb_word_determines_pair.

(** C16: solo termination of try_push and pop from every reachable state within (2k+12)*(segs+2) own steps,
    for every sequence [orc] of random start offsets *)
Theorem C06_kfb_solo_bound_value : forall k segs, kfb_bound k segs = ((2 * N.to_nat k + 12) * (N.to_nat segs + 2))%nat.
Proof. exact kfb_bound_value. Qed.
Print Assumptions C06_kfb_solo_bound_value.

Theorem C06_kfb_solo_any : forall k segs, 1 <= k -> 1 <= segs -> forall t s (orc : nat -> N), reach init (step k segs) s ->
  exists n s', (n <= kfb_bound k segs)%nat /\ orun k segs t orc n s s' /\ idle s' t = true.
Proof. exact kfb_solo_any. Qed.
Print Assumptions C06_kfb_solo_any.

Theorem C06_kfb_solo : forall k segs, 1 <= k -> 1 <= segs -> forall t s r, reach init (step k segs) s ->
  finishes_within (step k segs) (fun u => Step u r) idle t (kfb_bound k segs) s.
Proof. exact kfb_solo. Qed.
Print Assumptions C06_kfb_solo.
