(** C01 / C02 / C17 for xenium::reclamation::stamp_it: property theorems (statements only; proofs live in Proof/StampInv.v and
    the layers it names).  [StampDefs] is the step-level model of the reclaimer - the thread order queue with push / remove
    and helping, update_tail_stamp, the local and global retire lists - under the generic protocol-conforming client of
    harness/h_recl.cpp (repl / clear / read / hold / drop / deref / enter / leave, thread exit), tied to the code by trace
    correspondence (build/h_stamp = h_recl.cpp with rt::STAMP and the reclaimer's statics named; also build/h_recl_stamp).
    [reach (init nc) (step ns)]: every state reachable with nc cells and ns guard slots per thread, any number of threads,
    any programs, any schedule.
    [g_reg st b]: control block b is inside a critical region (linked behind head, prev pointer not yet marked);
    [cst v]: the stamp a block was given by fetch_add, whatever its flags;  [Tinv st]: the stamp of tail is at most the
    stamp of every block inside a critical region;  [reach_in ns nc Tinv st]: st is reached by a run all of whose states
    satisfy Tinv;  [g_nfree st n]: how often the reclaimer ran n's deleter;  [g_where st n]: where the retired node n is;
    [g_life st n = LRet t r]: n was unlinked and retired by t with stamp r;  [g_uaf]: a dereference hit a destroyed node.

    PARTIAL: [Tinv] itself is not proved (it needs the full correctness argument of remove / update_tail_stamp with helping);
    it was checked, together with the list invariants of the queue, on the extracted model (ocaml/stamp_explore.ml: 1.4e8
    random steps, exhaustive for small two-thread programs), no violation. *)
From Coq Require Import NArith List.
From XV Require Import Conc.Lts Conc.Ev Model.StampDefs Proof.StampBase Proof.StampNodes Proof.StampStamps Proof.StampOrder Proof.StampGuards Proof.StampInv Proof.StampFlush.
Import ListNotations.
Local Open Scope N_scope.

(** C01 (partial): along every run that keeps the tail stamp below the stamps of the threads inside a critical region, no
    object is destroyed while a guard_ptr protects it, and no dereference hits a destroyed object *)
Theorem C01_stamp_safe_partial : forall ns nc st, reach_in ns nc Tinv st ->
  (forall u i n, gs (tl st u) i = Some n -> dead st n = false /\ g_nfree st n = O) /\ g_uaf st = false.
Proof. exact stamp_safe_partial. Qed.
Print Assumptions C01_stamp_safe_partial.

(** ... hence for all runs, if the tail stamp bound holds in every reachable state *)
Theorem C01_stamp_safe_if_tail_bound : forall ns nc, (forall x, reach (init nc) (step ns) x -> Tinv x) ->
  forall st, reach (init nc) (step ns) st ->
  (forall u i n, gs (tl st u) i = Some n -> dead st n = false /\ g_nfree st n = O) /\ g_uaf st = false.
Proof. exact stamp_safe_if_tail_bound. Qed.
Print Assumptions C01_stamp_safe_if_tail_bound.

(** the thread of a guard_ptr is inside its critical region: its control block is linked and its prev pointer is unmarked *)
Theorem C01_stamp_guard_region : forall ns nc st, reach (init nc) (step ns) st -> forall u i n, gs (tl st u) i = Some n ->
  exists b, cb (tl st u) = Some b /\ g_reg st b = true /\ marked (qprev st (TB b)) = false.
Proof. exact stamp_guard_region. Qed.
Print Assumptions C01_stamp_guard_region.

(** a node is reclaimed only when its stamp (head->stamp at its retirement) is at most the stamp of tail *)
Theorem C01_stamp_free_stamp : forall ns nc st t st' es, reach (init nc) (step ns) st -> step ns st (Step t) = Some (st', es) ->
  forall n, g_where st' n = PFreed -> g_where st n = PFreed \/ (exists v r, g_life st n = LRet v r /\ r <= qstamp st TTail).
Proof. exact stamp_free_stamp. Qed.
Print Assumptions C01_stamp_free_stamp.

(** the thread order queue, by the owner of a control block: stamp flags and prev mark at every program point of push /
    remove; inside the critical region the prev pointer is unmarked; head->stamp is above every stamp handed out *)
Theorem C17_stamp_queue_owner : forall ns nc st, reach (init nc) (step ns) st ->
  (qstamp st THead mod 4 = 0 /\ 4 <= qstamp st THead) /\
  (forall b, cst (qstamp st (TB b)) + 4 <= qstamp st THead) /\
  (forall u b, cb (tl st u) = Some b ->
     sform (th st u) (tl st u) (qstamp st (TB b)) /\
     (inregx (th st u) (tl st u) = true -> marked (qprev st (TB b)) = false) /\
     g_reg st b = inreg (th st u) (tl st u)) /\
  (forall b, g_reg st b = true -> exists u, cb (tl st u) = Some b).
Proof. exact stamp_queue_owner. Qed.
Print Assumptions C17_stamp_queue_owner.

(** stamps strictly increase in the order in which blocks are linked behind head; linked blocks have different stamps;
    a push that still can succeed carries a stamp above all of them; head->prev is never marked *)
Theorem C17_stamp_queue_order : forall ns nc st, reach (init nc) (step ns) st ->
  marked (qprev st THead) = false /\
  (g_max st mod 4 = 0 /\ g_max st + 4 <= qstamp st THead) /\
  (forall b, g_lk st b = true -> cst (qstamp st (TB b)) <= g_max st) /\
  (forall b b', b <> b' -> g_lk st b = true -> g_lk st b' = true -> cst (qstamp st (TB b)) <> cst (qstamp st (TB b'))) /\
  (forall u hp v, pend_of (th st u) = Some (hp, v) -> hp = qprev st THead -> g_max st < v).
Proof. exact stamp_queue_order. Qed.
Print Assumptions C17_stamp_queue_order.

Theorem C17_stamp_link_order : forall ns nc s t k hp v my b s' es, reach (init nc) (step ns) s -> th s t = P10 k hp v my ->
  cb (tl s t) = Some b -> qprev s THead = hp -> step ns s (Step t) = Some (s', es) ->
  g_max s < v /\ g_max s' = v /\ cst (qstamp s' (TB b)) = v /\ g_lk s' b = true /\
  (forall b', b' <> b -> g_lk s' b' = true -> cst (qstamp s' (TB b')) < v).
Proof. exact link_order. Qed.
Print Assumptions C17_stamp_link_order.

(** the stamp of tail never decreases *)
Theorem C17_stamp_tail_monotone : forall ns nc st a st' es, reach (init nc) (step ns) st -> step ns st a = Some (st', es) ->
  qstamp st TTail <= qstamp st' TTail.
Proof. exact stamp_tail_monotone. Qed.
Print Assumptions C17_stamp_tail_monotone.

(** C02, safety half: a retired object is destroyed at most once, only retired objects are destroyed by the reclaimer, a
    retired object is in exactly one place (a local list, the global list - also after its retiring thread exited -, in the
    hands of a thread, or freed), nothing is dropped or duplicated *)
Theorem C02_stamp_exactly_once : forall ns nc st, reach (init nc) (step ns) st ->
  (forall n, (g_nfree st n <= 1)%nat) /\
  (forall n, g_nfree st n = 1%nat <-> g_where st n = PFreed) /\
  (forall n, g_where st n <> PNone <-> exists t r, g_life st n = LRet t r) /\
  (forall u n, In n (rl (tl st u)) <-> g_where st n = PList u) /\
  (forall n, In n (concat (gret st)) <-> g_where st n = PGlob) /\
  (forall u n, In n (flight (th st u)) <-> g_where st n = PFlight u) /\
  (forall u, NoDup (rl (tl st u))) /\ NoDup (concat (gret st)) /\ (forall u, NoDup (flight (th st u))).
Proof. exact stamp_exactly_once. Qed.
Print Assumptions C02_stamp_exactly_once.

(** C02, liveness half, what is false: a node in the local retire list of a thread (up to 20 stay there when the thread
    leaves a region and was not the last one) is not reclaimed by anything the other threads do, however long they run
    (concrete schedule: Proof/StampInv.v, ex1_idle_thread_keeps_the_node) *)
Theorem C02_stamp_no_leak_by_other_threads_refuted : forall ns nc acts st u n, reach (init nc) (step ns) st ->
  In n (rl (tl st u)) -> Forall (fun a => actor a <> u) acts ->
  let st' := fst (fst (run (step ns) st acts)) in
  In n (rl (tl st' u)) /\ g_where st' n = PList u /\ g_nfree st' n = O.
Proof. exact stamp_idle_thread_keeps_its_nodes. Qed.
Print Assumptions C02_stamp_no_leak_by_other_threads_refuted.

(** C02, liveness half (partial): the retire lists are sorted by stamp and no retire stamp exceeds head->stamp, so what
    process_local_nodes / process_global_nodes reclaim is everything up to the tail stamp ... *)
Theorem C02_stamp_retire_lists_sorted : forall ns nc st, reach (init nc) (step ns) st ->
  (forall n u r, g_life st n = LRet u r -> r <= qstamp st THead) /\
  (forall u, sorted (nstamp st) (rl (tl st u))) /\ (forall c, In c (gret st) -> sorted (nstamp st) c) /\
  (forall u c, In c (chunks_of (th st u)) -> sorted (nstamp st) c).
Proof. intros ns nc st Hr. destruct (F0_reach ns nc st Hr) as [A B C D]. auto. Qed.
Print Assumptions C02_stamp_retire_lists_sorted.

(** ... and a thread that left its critical region as the last one (it is at the start of process_global_nodes) reclaims,
    within its next three steps when no other thread runs, every node of its local list and of the global list whose stamp is
    at most the tail stamp.  MISSING for "no leak at quiescence": that a critical region entered and left by one thread on a
    queue at rest ends at this program point with a tail stamp above every earlier retire stamp (= the unproved correctness
    of push / remove / update_tail_stamp; it holds in the examples of Proof/StampInv.v and Proof/StampFlush.v and in all
    explored states); and a node in the local list of a thread is reclaimed only by that thread
    ([C02_stamp_no_leak_by_other_threads_refuted]) *)
Theorem C02_stamp_no_leak_at_quiescence_partial : forall ns nc s t k, reach (init nc) (step ns) s -> th s t = PG1 k ->
  let s3 := fst (fst (run (step ns) s [Step t; Step t; Step t])) in
  forall n, In n (rl (tl s t)) \/ In n (concat (gret s)) -> nstamp s n <= qstamp s TTail -> g_where s3 n = PFreed.
Proof. exact pg_frees. Qed.
Print Assumptions C02_stamp_no_leak_at_quiescence_partial.
