(** C04 / C07 (the nikolaev_queue part): property theorems over the step-level model Model/NikqDefs.v of
    xenium::nikolaev_queue<T, reclaimer<GC>, entries_per_node<2^k>, pop_retries<R>> (statements only; proofs in
    Proof/Nikq*.v).

    Model: a Michael-Scott list of nodes; the state of node n is a state [nd s n] of the bounded-queue model
    Model/NikbDefs.v (allocated ring RA, free ring RF, storage cells, the program points of the threads inside the ring
    code of THIS node, ticket / ownership ghosts) and every atomic access inside nikolaev_scq is the step of that model
    (the repaired ring code, repository commit ccd976e; the finalized bit of RA._tail is [fin s n], commit 87495bb); the
    program points outside the rings ([oth s t]), finalize, set_threshold, the constructor of a node, steal_init_value,
    ~node and retire are modelled in NikqDefs.  One [Step] = one atomic access, emitting the event rt/xvrt prints; tied by
    trace equality with the real code.  k <= 40, any pop_retries R, any number of threads, any programs, any schedule
    (sequentially consistent interleavings).

    [good k R s] = s is reachable and [noovf s]: no head / tail counter of any node has reached 2^62, no threshold has
    gone below -2^62 (a wrapped counter stays wrapped: [C04_nikq_good_prefix]).

    Ghosts: [q_nodes] all nodes ever linked, in chain order; [q_retired] nodes retired by the head CAS; [q_in] ((node,
    RA ticket), value) at the instant a push publishes its index in RA of a linked node (or links its pre-filled node,
    ticket 0); [q_out] the same at the instant a pop takes an index out of RA; [q_ok] / [q_ret] what the calls returned;
    [stored k s] the cells of the indices that are in the allocated rings of the linked nodes, with node and ticket.

    FINDING (recorded, not repaired; inherent to SCQ's threshold 3n-1, which assumes at most n concurrent threads): with
    3 * entries_per_node pops delayed between catchup and their threshold decrement the threshold of a node is taken
    below zero although a value is stored: every pop then answers 'empty' (and a drain returns nothing) until the next
    push - [C04_nikq_threshold_empty_refuted], [C04_nikq_empty_verdict_refuted] (4 threads, entries_per_node 1, replayed
    by the real code: "value 7 was accepted but never returned (lost)"); with a successor node present the head is advanced
    and the node RETIRED with the value still in it - [C04_nikq_retired_drained_refuted],
    [C04_nikq_cross_node_order_refuted] (5 threads; replayed by the real code, trace-identical).  The verdict theorems are
    therefore stated for the final-check path ([C04_nikq_final_check], [C04_nikq_empty_final_check]); exactness of the two
    threshold exits under a bound on the number of threads is NOT proved. *)
From Coq Require Import NArith List Bool Permutation.
From XV Require Import Base.Word Conc.Lts Conc.Ev gen.ScqGen Model.NikbDefs Model.NikqDefs.
From XV Require Import Proof.NikbArith Proof.NikbBase Proof.NikbWf Proof.NikbOwn Proof.NikbVal Proof.NikbSafe Proof.NikbCons.
From XV Require Import Proof.NikqBase Proof.NikqRing Proof.NikqChain Proof.NikqVal Proof.NikqValStep Proof.NikqCons Proof.NikqExamples.
Import ListNotations.
Local Open Scope N_scope.

(** ** good states *)
Theorem C04_nikq_good_prefix : forall k R, k <= 40 -> forall s a s' es,
  reach (qinit (2 ^ k)) (qstep (2 ^ k) R) s -> qstep (2 ^ k) R s a = Some (s', es) -> good k R s' -> good k R s.
Proof. exact good_step. Qed.
Print Assumptions C04_nikq_good_prefix.

(** ** structure *)

(** a thread is inside the ring code of at most one node: the node of its program point *)
Theorem C04_nikq_coherent : forall cap R s, reach (qinit cap) (qstep cap R) s ->
  forall t n, th (nd s n) t <> Idle -> innode (oth s t) = Some n \/ oth s t = OStuck.
Proof. exact Coh_reach. Qed.
Print Assumptions C04_nikq_coherent.

(** which ring code runs in which phase: try_push = dequeue on RF then enqueue on RA; finalized case = enqueue on RF;
    do_pop / steal_init_value = dequeue on RA then enqueue on RF; ~node = dequeue on RA *)
Theorem C04_nikq_phases : forall k R, k <= 40 -> forall s, reach (qinit (2 ^ k)) (qstep (2 ^ k) R) s -> PT s.
Proof. exact PT_reach. Qed.
Print Assumptions C04_nikq_phases.

(** RING INVARIANTS PER NODE: every node state satisfies the invariant layers of the bounded queue: words ([Inv1]), tickets /
    slots / index ownership ([Inv2]), the is_safe flag layer ([Inv4]), tickets below head are handed out ([A3]) *)
Theorem C04_nikq_ring_invariants : forall k R, k <= 40 -> forall s, reach (qinit (2 ^ k)) (qstep (2 ^ k) R) s ->
  forall n, g_ovf (nd s n) = false -> Inv1 k (nd s n) /\ Inv2 k (nd s n) /\ Inv4 k (nd s n) /\ A3 (nd s n).
Proof. exact ring_reach. Qed.
Print Assumptions C04_nikq_ring_invariants.

(** NODE CHAIN: linked nodes are distinct, retired nodes = the prefix before the head (so every node is retired at most
    once and the head is not retired), the tail is a linked node, next pointers = consecutive nodes, a node with a successor
    is finalized *)
Theorem C04_nikq_chain : forall k R, k <= 40 -> forall s, reach (qinit (2 ^ k)) (qstep (2 ^ k) R) s ->
  NoDup (q_nodes s) /\ (exists rest, q_nodes s = q_retired s ++ qhead s :: rest) /\ In (qtail s) (q_nodes s) /\
  linked (nxt s) (q_nodes s) /\ (forall n, nxt s n <> 0 -> In n (q_nodes s) /\ fin s n = true) /\
  NoDup (q_retired s) /\ ~ In (qhead s) (q_retired s) /\ (forall n, In n (q_nodes s) -> 0 < n < nalloc s).
Proof. exact nikq_chain. Qed.
Print Assumptions C04_nikq_chain.

(** a node under construction / being destroyed is known to one thread only and is not linked *)
Theorem C04_nikq_private_nodes : forall k R, k <= 40 -> forall s t m, reach (qinit (2 ^ k)) (qstep (2 ^ k) R) s -> priv (oth s t) = Some m ->
  ~ In m (q_nodes s) /\ nxt s m = 0 /\ (forall u, priv (oth s u) = Some m -> u = t) /\ (forall u n, In n (refs (oth s u)) -> n <> m).
Proof. exact nikq_private_nodes. Qed.
Print Assumptions C04_nikq_private_nodes.

(** C07: a node is retired exactly by the successful head CAS that unlinks it (with [C04_nikq_chain]: exactly once) *)
Theorem C04_nikq_retire_step : forall k R, k <= 40 -> forall s a s' es, reach (qinit (2 ^ k)) (qstep (2 ^ k) R) s -> qstep (2 ^ k) R s a = Some (s', es) ->
  (q_retired s' = q_retired s /\ qhead s' = qhead s) \/
  (exists t n nx, a = Step t /\ oth s t = Q5 n nx /\ qhead s = n /\ nxt s n = nx /\ nx <> 0 /\
                  q_retired s' = q_retired s ++ [n] /\ qhead s' = nx /\ In (ENote t 120 [n]) es).
Proof. exact nikq_retire_step. Qed.
Print Assumptions C04_nikq_retire_step.

(** FINALIZATION: a ticket of a finalized allocated ring that has not been handed out is never published (the fetch_add
    that sees the finalized bit gives its ticket up at once): a finalized node accepts no new index *)
Theorem C04_nikq_finalized_no_ticket : forall k R, k <= 40 -> forall s a s' es n T,
  good k R s -> fin s n = true -> n < nalloc s -> g_eq (ra (nd s n)) T = ENone ->
  qstep (2 ^ k) R s a = Some (s', es) -> g_eq (ra (nd s' n)) T = ENone \/ g_eq (ra (nd s' n)) T = ESkip.
Proof. exact nikq_finalized_no_ticket. Qed.
Print Assumptions C04_nikq_finalized_no_ticket.

(** ** inside a ring *)

(** NO STRANDING inside a ring: an index is never published with a ticket whose dequeue ticket was given up *)
Theorem C04_nikq_never_stranded : forall k R, k <= 40 -> forall s n q T, good k R s -> ~ stranded (rg (nd s n) q) T.
Proof. exact nikq_never_stranded. Qed.
Print Assumptions C04_nikq_never_stranded.

(** a published index has been taken, or an operation in progress holds its dequeue ticket inside its do-loop, or it is in its
    slot and head has not reached its ticket *)
Theorem C04_nikq_published_fate : forall k R, k <= 40 -> forall s n q T i, good k R s -> g_eq (rg (nd s n) q) T = EPub i ->
  g_dq (rg (nd s n) q) T = DTaken i \/
  (exists u, g_dq (rg (nd s n) q) T = DHeld u /\ dtk (th (nd s n) u) = Some (q, 2 * T)) \/
  (g_dq (rg (nd s n) q) T = DNone /\ rhead (rg (nd s n) q) <= 2 * T /\ eidx k (slot k (nd s n) q T) = i /\
   ecyc k (slot k (nd s n) q T) = T / nn (2 ^ k)).
Proof. exact nikq_published_fate. Qed.
Print Assumptions C04_nikq_published_fate.

(** every storage index of a node is in exactly one place, and [g_own] names it *)
Theorem C04_nikq_index_place : forall k R, k <= 40 -> forall s n i, good k R s -> i < 2 ^ k ->
  match g_own (nd s n) i with
  | OFree T => 2 * T < 2 ^ 62 /\ eidx k (slot k (nd s n) RF T) = i /\ ecyc k (slot k (nd s n) RF T) = T / nn (2 ^ k) /\
               g_eq (rf (nd s n)) T = EPub i /\ (forall j, g_dq (rf (nd s n)) T <> DTaken j)
  | OFull T => 2 * T < 2 ^ 62 /\ eidx k (slot k (nd s n) RA T) = i /\ ecyc k (slot k (nd s n) RA T) = T / nn (2 ^ k) /\
               g_eq (ra (nd s n)) T = EPub i /\ (forall j, g_dq (ra (nd s n)) T <> DTaken j)
  | OWrite t => hidx (th (nd s n) t) = Some (RA, i)
  | ORead t => hidx (th (nd s n) t) = Some (RF, i)
  end.
Proof. exact nikq_index_place. Qed.
Print Assumptions C04_nikq_index_place.

(** two threads never access the same storage cell of a node *)
Theorem C04_nikq_exclusive_cell : forall k R, k <= 40 -> forall s n t1 t2 q1 q2 i, good k R s ->
  hidx (th (nd s n) t1) = Some (q1, i) -> hidx (th (nd s n) t2) = Some (q2, i) -> t1 = t2 /\ q1 = q2.
Proof. exact nikq_exclusive_cell. Qed.
Print Assumptions C04_nikq_exclusive_cell.

(** ** values: conservation *)

(** the value invariant (record [VI]: keys unique in every list, published pairs belong to linked nodes and published
    tickets, taken = published by key, cells of indices in RA hold the published value, returns report what was
    published / taken) *)
Theorem C04_nikq_value_invariant : forall k R, k <= 40 -> forall s, good k R s -> VI k s.
Proof. exact VI_good. Qed.
Print Assumptions C04_nikq_value_invariant.

(** keys are unique in every list; what is taken was published (same node, ticket, value); what push reported as accepted
    was published; what pop returned was taken: nothing is invented, nothing is returned twice *)
Theorem C04_nikq_values : forall k R, k <= 40 -> forall s, good k R s ->
  NoDup (map fst (q_in s)) /\ NoDup (map fst (q_out s)) /\ incl (q_out s) (q_in s) /\
  NoDup (map fst (q_ok s)) /\ incl (q_ok s) (q_in s) /\
  NoDup (map fst (q_ret s)) /\ incl (q_ret s) (q_out s).
Proof. exact nikq_values. Qed.
Print Assumptions C04_nikq_values.

(** in EVERY good state a published value has been taken or is in the cell whose index is in the allocated ring of its
    (linked) node at its ticket; conversely such a cell holds a published, not yet taken value *)
Theorem C04_nikq_published_taken_or_stored : forall k R, k <= 40 -> forall s n T v, good k R s -> In (n, T, v) (q_in s) ->
  In (n, T, v) (q_out s) \/ (In n (q_nodes s) /\ exists i, i < 2 ^ k /\ g_own (nd s n) i = OFull T /\ store (nd s n) i = v).
Proof. exact nikq_published_taken_or_stored. Qed.
Print Assumptions C04_nikq_published_taken_or_stored.

Theorem C04_nikq_stored_published : forall k R, k <= 40 -> forall s n i T, good k R s -> In n (q_nodes s) -> i < 2 ^ k ->
  g_own (nd s n) i = OFull T -> In (n, T, store (nd s n) i) (q_in s) /\ forall v, ~ In (n, T, v) (q_out s).
Proof. exact nikq_stored_published. Qed.
Print Assumptions C04_nikq_stored_published.

(** CONSERVATION as one equation between multisets, in EVERY good state: published = taken + stored in the linked nodes
    (in particular at quiescence: what a drain can return is what was pushed and not popped - provided the drain reaches
    it, see the finding above) *)
Theorem C04_nikq_conservation : forall k R, k <= 40 -> forall s, good k R s -> Permutation (q_in s) (q_out s ++ stored k s).
Proof. exact nikq_conservation. Qed.
Print Assumptions C04_nikq_conservation.

(** ** FIFO *)

(** the pop that takes (n, H) gets the value that was published at (n, H) *)
Theorem C04_nikq_fifo_by_ticket : forall k R, k <= 40 -> forall s n H v, good k R s -> In (n, H, v) (q_out s) ->
  In (n, H, v) (q_in s) /\ (forall w, In (n, H, w) (q_in s) -> w = v) /\ (forall w, In (n, H, w) (q_out s) -> w = v).
Proof. exact nikq_fifo_by_ticket. Qed.
Print Assumptions C04_nikq_fifo_by_ticket.

(** inside a node values leave in ticket order: when ticket T2 of node n has been taken, a published smaller ticket T1 of n
    has been taken or a pop in progress holds dequeue ticket T1 inside its do-loop (it is linearized first) *)
Theorem C04_nikq_fifo_order : forall k R, k <= 40 -> forall s n T1 v1 T2 v2, good k R s ->
  In (n, T1, v1) (q_in s) -> In (n, T2, v2) (q_out s) -> T1 < T2 ->
  In (n, T1, v1) (q_out s) \/ (exists u, g_dq (ra (nd s n)) T1 = DHeld u /\ dtk (th (nd s n) u) = Some (RA, 2 * T1)).
Proof. exact nikq_fifo_order. Qed.
Print Assumptions C04_nikq_fifo_order.

(** tickets respect real time: published tickets are below tail, taken tickets below head of their node *)
Theorem C04_nikq_ticket_below_counter : forall k R, k <= 40 -> forall s, good k R s ->
  (forall n T v, In (n, T, v) (q_in s) -> 2 * T + 2 <= rtail (ra (nd s n))) /\
  (forall n H v, In (n, H, v) (q_out s) -> 2 * H + 2 <= rhead (ra (nd s n))).
Proof. exact nikq_ticket_below_counter. Qed.
Print Assumptions C04_nikq_ticket_below_counter.

(** across nodes: values are taken only from a node that is or was the head: nothing leaves node i+1 before the head has
    been moved to it (by a pop whose dequeues on node i failed) *)
Theorem C04_nikq_taken_from_head_nodes : forall k R, k <= 40 -> forall s n H v, good k R s -> In (n, H, v) (q_out s) ->
  In n (q_retired s) \/ n = qhead s.
Proof. exact nikq_taken_from_head_nodes. Qed.
Print Assumptions C04_nikq_taken_from_head_nodes.

(** ** verdicts *)

(** where a failing dequeue of do_pop comes from: first threshold test, threshold decrement in the loop, or the final check
    of tail against the own ticket followed by catchup (program point D8) *)
Theorem C04_nikq_dequeue_fail_sources : forall k R, k <= 40 -> forall s u s' es n, qstep (2 ^ k) R s (Step u) = Some (s', es) ->
  ((exists lb, oth s u = QIn1 n lb) /\ oth s' u = Q2 n) \/ ((exists lb, oth s u = QIn2 n lb) /\ oth s' u = Q4 n) ->
  exists x, (th (nd s n) u = D0 RA x /\ lt0 (rthr (ra (nd s n))) = true) \/
            (th (nd s n) u = D7 RA x /\ sle 64 (rthr (ra (nd s n))) 0 = true) \/
            th (nd s n) u = D8 RA x.
Proof. exact nikq_dequeue_fail_sources. Qed.
Print Assumptions C04_nikq_dequeue_fail_sources.

(** what the final check sees (thread u inside a dequeue on RA of node n, given-up ticket hd, at the instant of its load of
    the tail word, finalized bit included): tail <= head, every index published in that ring has been taken or an operation
    in progress holds its dequeue ticket inside its do-loop *)
Theorem C04_nikq_final_check : forall k R, k <= 40 -> forall s n u x hd, good k R s -> th (nd s n) u = D6 RA x hd ->
  gt0 (diff (bitw (rtail (ra (nd s n))) (fin s n)) (wadd 64 hd 2)) = false ->
  rtail (ra (nd s n)) <= hd + 2 /\ hd + 2 <= rhead (ra (nd s n)) /\
  forall T i, g_eq (ra (nd s n)) T = EPub i ->
    2 * T + 2 <= rhead (ra (nd s n)) /\
    (g_dq (ra (nd s n)) T = DTaken i \/
     (exists u', g_dq (ra (nd s n)) T = DHeld u' /\ dtk (th (nd s n) u') = Some (RA, 2 * T))).
Proof. exact nikq_final_check. Qed.
Print Assumptions C04_nikq_final_check.

(** 'empty' / 'node drained' on the final-check path: at that instant every value published in node n has been taken or is
    being taken by a pop in progress *)
Theorem C04_nikq_empty_final_check : forall k R, k <= 40 -> forall s n u x hd, good k R s -> th (nd s n) u = D6 RA x hd ->
  gt0 (diff (bitw (rtail (ra (nd s n))) (fin s n)) (wadd 64 hd 2)) = false ->
  forall T v, In (n, T, v) (q_in s) ->
    In (n, T, v) (q_out s) \/ (exists u', g_dq (ra (nd s n)) T = DHeld u' /\ dtk (th (nd s n) u') = Some (RA, 2 * T)).
Proof. exact nikq_empty_final_check. Qed.
Print Assumptions C04_nikq_empty_final_check.

(** the answer 'empty' is given after a failed dequeue on a node without successor; that node is the head and the last node
    of the chain (all nodes before it are retired; next pointers are final, so this held during the whole failed dequeue) *)
Theorem C04_nikq_empty_answer : forall k R, k <= 40 -> forall s u s' es, good k R s -> qstep (2 ^ k) R s (Step u) = Some (s', es) ->
  In (ERet u [0]) es -> exists n, oth s u = Q2 n /\ nxt s n = 0 /\ qhead s = n /\ q_nodes s = q_retired s ++ [n].
Proof. exact nikq_empty_answer. Qed.
Print Assumptions C04_nikq_empty_answer.

(** ** the threshold paths are not exact (the finding): concrete schedules, entries_per_node 1, pop_retries 0, replayed by
    the real code with identical traces *)

(** 4 threads: quiescent good state, push 7 returned, 7 is stored at ticket 4 of node 1 (published, dequeue ticket not handed
    out), the threshold of the node is -1; two pops in sequence answer 'empty' and take nothing *)
Theorem C04_nikq_threshold_empty_refuted :
  let s1 := qst 1 0 thr_pre in
  let r := run (qstep 1 0) s1 thr_after in
  good 0 0 s1 /\ qsk 1 0 thr_pre = 0%nat /\ quiescent s1 /\
  q_ok s1 = [(1, 0, 1); (1, 4, 7)] /\ q_out s1 = [(1, 0, 1)] /\ q_nodes s1 = [1] /\ q_retired s1 = [] /\ stored 0 s1 = [(1, 4, 7)] /\
  g_eq (ra (nd s1 1)) 4 = EPub 0 /\ g_dq (ra (nd s1 1)) 4 = DNone /\ rhead (ra (nd s1 1)) = 8 /\ rtail (ra (nd s1 1)) = 10 /\
  rthr (ra (nd s1 1)) = ones64 /\
  snd r = 0%nat /\ rets (snd (fst r)) = [(1, [0]); (2, [0])] /\ q_out (fst (fst r)) = q_out s1.
Proof. exact nikq_threshold_empty_refuted. Qed.
Print Assumptions C04_nikq_threshold_empty_refuted.

Theorem C04_nikq_empty_verdict_refuted :
  ~ (forall s u s' es, good 0 0 s -> (forall t, oth s t = OIdle \/ t = u) -> qstep 1 0 s (Step u) = Some (s', es) ->
       In (ERet u [0]) es -> stored 0 s = []).
Proof. exact nikq_empty_verdict_refuted. Qed.
Print Assumptions C04_nikq_empty_verdict_refuted.

(** 5 threads: node 1 is retired while 7 is stored in it and no pop holds its dequeue ticket; 8 (node 5, pushed after 7) has
    been returned; three pops that started before are still in progress (one of them returns 7 later, from the retired node) *)
Theorem C04_nikq_retired_with_value_state :
  let s1 := qst 1 0 w2_pre in
  let r := run (qstep 1 0) s1 w2_after in
  good 0 0 s1 /\ qsk 1 0 w2_pre = 0%nat /\
  q_nodes s1 = [1; 5] /\ q_retired s1 = [1] /\ qhead s1 = 5 /\ qtail s1 = 5 /\
  q_ok s1 = [(1, 0, 1); (1, 5, 7); (5, 0, 8)] /\ q_ret s1 = [(1, 0, 1); (5, 0, 8)] /\ q_out s1 = [(1, 0, 1); (5, 0, 8)] /\
  stored 0 s1 = [(1, 5, 7)] /\ g_dq (ra (nd s1 1)) 5 = DNone /\
  map (oth s1) [1; 2; 3; 4; 5]%nat = [OIdle; OIdle; Q2 1; Q2 1; Q2 1] /\
  snd r = 0%nat /\ rets (snd (fst r)) = [(3, [1; 7]); (4, [0]); (5, [0]); (1, [0])] /\ stored 0 (fst (fst r)) = [].
Proof. exact nikq_retired_with_value_state. Qed.
Print Assumptions C04_nikq_retired_with_value_state.

Theorem C04_nikq_retired_drained_refuted :
  ~ (forall s n T v, good 0 0 s -> In n (q_retired s) -> In (n, T, v) (q_in s) ->
       In (n, T, v) (q_out s) \/ exists u, g_dq (ra (nd s n)) T = DHeld u).
Proof. exact nikq_retired_drained_refuted. Qed.
Print Assumptions C04_nikq_retired_drained_refuted.

Theorem C04_nikq_cross_node_order_refuted :
  ~ (forall s n1 T1 v1 n2 T2 v2 l1 l2 l3, good 0 0 s -> q_nodes s = l1 ++ n1 :: l2 ++ n2 :: l3 ->
       In (n1, T1, v1) (q_in s) -> In (n2, T2, v2) (q_out s) ->
       In (n1, T1, v1) (q_out s) \/ exists u, g_dq (ra (nd s n1)) T1 = DHeld u).
Proof. exact nikq_cross_node_order_refuted. Qed.
Print Assumptions C04_nikq_cross_node_order_refuted.

(** ** the hypotheses are satisfiable *)
Theorem C04_nikq_example_conservation :
  let s := qst 1 0 w2_pre in
  q_in s = [(1, 0, 1); (1, 5, 7); (5, 0, 8)] /\ q_out s ++ stored 0 s = [(1, 0, 1); (5, 0, 8); (1, 5, 7)] /\
  fin s 1 = true /\ nxt s 1 = 5 /\ nxt s 5 = 0 /\ fin s 5 = false.
Proof. exact nikq_example_conservation. Qed.
Print Assumptions C04_nikq_example_conservation.

Theorem C04_nikq_example_final_check :
  let s := qst 1 0 fc_acts in
  good 0 0 s /\ th (nd s 1) 1%nat = D6 RA 0 2 /\ fin s 1 = true /\ rtail (ra (nd s 1)) = 2 /\
  gt0 (diff (bitw (rtail (ra (nd s 1))) (fin s 1)) (wadd 64 2 2)) = false.
Proof. exact nikq_example_final_check. Qed.
Print Assumptions C04_nikq_example_final_check.

Theorem C04_nikq_example_finalized :
  let s := qst 1 0 w2_pre in fin s 1 = true /\ 1 < nalloc s /\ g_eq (ra (nd s 1)) 9 = ENone.
Proof. exact nikq_example_finalized. Qed.
Print Assumptions C04_nikq_example_finalized.

Theorem C04_nikq_example_fifo :
  let s := qst 2 0 two_acts in
  good 1 0 s /\ q_in s = [(1, 0, 1); (1, 1, 2)] /\ q_out s = [(1, 0, 1); (1, 1, 2)] /\ q_ret s = q_out s /\ stored 1 s = [].
Proof. exact nikq_example_fifo. Qed.
Print Assumptions C04_nikq_example_fifo.
