(** C01 / C02 for xenium::reclamation::quiescent_state_based: property theorems (statements only; proofs live in
    Proof/QsbrInv.v, Proof/QsbrFlush.v and the layers they name).  [QsbrDefs] is the step-level model of the reclaimer under
    the generic protocol-conforming client of harness/h_recl.cpp (repl / clear / read / hold / drop / deref / enter / leave
    (region_guard), thread exit), tied to the code by trace correspondence (build/h_qsbr = h_recl.cpp with rt::QSBR and the
    reclaimer's statics named; tools/qsbr_correspond.py).
    [reach (init nc) (step ns)]: every state reachable with nc cells and ns guard slots per thread, any number of threads,
    any programs, any schedule.
    global_epoch / local_epoch hold epochs modulo 3; [g_gepc st]: the number of advances of global_epoch (the unbounded epoch);
    [g_lepc st b]: the unbounded epoch the owner of control block b last announced.
    [holds st u n]: thread u holds a guard_ptr on node n (a persistent guard of the client or the guard of a running
    repl/clear; u is inside a region);  [g_nfree st n]: how often the reclaimer ran n's deleter;  [g_where st n]: where the
    retired node / the orphan n is;  [g_life st n = LRet t r g]: n was unlinked and retired by t whose local epoch was r while
    the global epoch was g;  [g_life st o = LOrph t g]: o is the orphan thread t created at its exit while the global epoch was
    g;  [g_uaf]: a dereference hit a destroyed node;  [synced p]: the thread has published its epoch (it is past the CAS of
    ensure_has_control_block). *)
From Coq Require Import NArith List.
From XV Require Import Conc.Lts Conc.Ev Model.QsbrDefs Proof.QsbrBase Proof.QsbrEpoch Proof.QsbrNodes Proof.QsbrTags Proof.QsbrGuards Proof.QsbrFlush Proof.QsbrInv.
Import ListNotations.
Local Open Scope N_scope.

(** C01, MAIN RESULT: no object is destroyed while a guard_ptr protects it, and no dereference hits a destroyed object *)
Theorem C01_qsbr_safe : forall ns nc st, reach (init nc) (step ns) st ->
  (forall u n, holds st u n -> g_nfree st n = O /\ g_where st n <> PFreed /\ g_life st n <> LDropped) /\
  g_uaf st = false.
Proof. exact qsbr_safe. Qed.
Print Assumptions C01_qsbr_safe.

(** the epoch argument behind it: the global epoch is at most one ahead of every registered thread (in a region or not) ... *)
Theorem C01_qsbr_epoch_window : forall ns nc st, reach (init nc) (step ns) st ->
  gep st = g_gepc st mod 3 /\
  forall u b, cb (tl st u) = Some b -> synced (th st u) = true ->
    g_lepc st b <= g_gepc st /\ g_gepc st <= g_lepc st b + 1 /\ blocal st b = g_lepc st b mod 3.
Proof. exact qsbr_epoch_window. Qed.
Print Assumptions C01_qsbr_epoch_window.

(** ... a node retired at global epoch g (local epoch r of the retiring thread, r <= g <= r + 1) is freed only when the global
    epoch is >= g + 2; AN ORPHAN CREATED AT GLOBAL EPOCH g HAS TARGET EPOCH (g + 2) mod 3, IS FREED ONLY WHEN THE GLOBAL EPOCH IS
    >= g + 2, and carries only blocks whose tag (retire / creation epoch + 2) is <= g + 2; a thread that holds a guard on a
    retired node announced an epoch <= g and keeps the global epoch <= g + 1.
    (With the orphan target g + 1 this is false: Proof/QsbrInv.v, qsbr_orphan_target_wrong_refuted.) *)
Theorem C01_qsbr_free_epoch : forall ns nc st, reach (init nc) (step ns) st ->
  (forall n t r g, g_life st n = LRet t r g -> r <= g /\ g <= r + 1 /\ (g_where st n = PFreed -> g + 2 <= g_gepc st)) /\
  (forall o t g, g_life st o = LOrph t g -> otgt st o = (g + 2) mod 3 /\ (g_where st o = PFreed -> g + 2 <= g_gepc st) /\
     (forall n, g_where st n = PIn o -> tagof (g_life st n) <= g + 2)) /\
  (forall u n t r g b, holds st u n -> g_life st n = LRet t r g -> cb (tl st u) = Some b -> g_lepc st b <= g /\ g_gepc st <= g + 1).
Proof. exact qsbr_free_epoch. Qed.
Print Assumptions C01_qsbr_free_epoch.

(** the variant of the model with the orphan target global_epoch + 1 (instead of + number_epochs - 1) is unsafe *)
Theorem C01_qsbr_orphan_target_wrong_refuted :
  exists acts, let st := runq 1 1 2 acts in
    reach (init 2) (step_gen 1 1) st /\
    holds st 3 0 /\ g_where st 0 = PFreed /\ g_nfree st 0 = 1%nat /\ g_uaf st = true /\
    g_life st 6 = LOrph 2 1 /\ g_where st 6 = PFreed /\ g_gepc st = 2.
Proof. exact qsbr_orphan_target_wrong_refuted. Qed.
Print Assumptions C01_qsbr_orphan_target_wrong_refuted.

(** C02, safety half: a retired object is destroyed at most once, only retired objects (and orphans) are destroyed by the
    reclaimer, a retired object is in exactly one place (a retire list, the orphan in the hand of an exiting thread, the
    abandoned list, inside an orphan - also after its retiring thread exited -, or freed), nothing is dropped or duplicated *)
Theorem C02_qsbr_exactly_once : forall ns nc st, reach (init nc) (step ns) st ->
  (forall n, (g_nfree st n <= 1)%nat) /\
  (forall n, g_nfree st n = 1%nat <-> g_where st n = PFreed) /\
  (forall n, g_where st n <> PNone <-> (exists t r g, g_life st n = LRet t r g) \/ (exists t g, g_life st n = LOrph t g)) /\
  (forall u i n, In n (rl (tl st u) i) <-> g_where st n = PList u i) /\
  (forall n, In n (aband st) <-> g_where st n = PAband) /\
  (forall u n, hand (th st u) = Some n <-> g_where st n = PHand u) /\
  (forall o n, In n (ocont st o) <-> g_where st n = PIn o) /\
  (forall u i, NoDup (rl (tl st u) i)) /\ NoDup (aband st) /\ (forall o, NoDup (ocont st o)).
Proof. exact qsbr_exactly_once. Qed.
Print Assumptions C02_qsbr_exactly_once.

(** every FREE event of the trace: the client's delete of its own unpublished node or of its region_guard object, or the
    reclaimer's first and only delete of a retired block *)
Theorem C02_qsbr_free_event : forall ns nc st a st' es, reach (init nc) (step ns) st -> step ns st a = Some (st', es) ->
  forall t n, In (EFree t n) es ->
    (g_life st n = LFresh t /\ g_life st' n = LDropped) \/ rgfree st t n \/
    (retd (g_life st n) = true /\ g_nfree st n = O /\ g_nfree st' n = 1%nat).
Proof. exact qsbr_free_event. Qed.
Print Assumptions C02_qsbr_free_event.

(** C02, liveness half as a bounded solo run.  [Quiet ns nc t c s b]: s is reachable, thread t is between operations, owns
    control block b and is outside any region, EVERY OTHER CONTROL BLOCK OF THE LIST IS RELEASED (the other threads have
    exited), cell c is not null.  [flush ns t c 4 s s']: t executes four read operations on cell c alone (each one runs to
    completion: acquire a guard = enter a region, release it = leave the region = a quiescent state), ending in s'.
    [due t s n i]: n is in retire list i of t, or an abandoned orphan with target epoch i, or inside one of these.  Then every
    such block is freed.  (The literal "no thread is inside a region" does not suffice for QSBR: next theorem.) *)
Theorem C02_qsbr_no_leak_at_quiescence : forall ns nc t c s b, Quiet ns nc t c s b ->
  exists s', flush ns t c 4 s s' /\ Quiet ns nc t c s' b /\
    forall n, (g_where s n = PFreed \/ exists i, due t s n i) -> g_where s' n = PFreed.
Proof. exact qsbr_no_leak_at_quiescence. Qed.
Print Assumptions C02_qsbr_no_leak_at_quiescence.

(** every thread is between operations and outside any region, thread 1 is registered: no number of flush operations of thread 2
    (shown: 4, 12) frees node 1 - a registered thread that passes no quiescent state blocks the epoch *)
Theorem C02_qsbr_no_leak_idle_thread_refuted :
  let st := run2 ex4 in
  reach (init 2) (step 1) st /\
  (forall u, th st u = Idle /\ nest (tl st u) = O /\ (forall sl, gs (tl st u) sl = None)) /\
  g_where st 1 = PList 2 1 /\ g_gepc st = 2 /\
  (let st4 := run2 (ex4 ++ flush_ops 2 0 4) in g_where st4 1 = PList 2 1 /\ g_gepc st4 = 2 /\ th st4 2%nat = Idle) /\
  (let st12 := run2 (ex4 ++ flush_ops 2 0 12) in g_where st12 1 = PList 2 1 /\ g_gepc st12 = 2 /\ th st12 2%nat = Idle).
Proof. exact qsbr_no_leak_idle_thread_refuted. Qed.
Print Assumptions C02_qsbr_no_leak_idle_thread_refuted.
