(** C06 - Kirsch k-FIFO queues: property theorems (statements only; proofs live in Proof/KirschIdx.v).
    [mk_idx], [idx_get], [idx_mark], [C_bits] are GENERATED from kirsch_bounded_kfifo_queue.hpp on every run. *)
From Coq Require Import NArith List.
From XV Require Import Base.Word gen.KirschIdxGen Proof.KirschIdx.
Local Open Scope N_scope.

(** head/tail (index, ABA tag) words round-trip for every index that fits the index field ... *)
Theorem C06_marked_idx_roundtrip : forall v m, v < 2 ^ C_bits -> m < 2 ^ (64 - C_bits) ->
  idx_get (mk_idx v m) = v /\ idx_mark (mk_idx v m) = m.
Proof. exact idx_roundtrip. Qed.
Print Assumptions C06_marked_idx_roundtrip.

(** ... and the field is wide enough for every queue of up to 2^32 slots (k * num_segments),
    in particular for products above 2^16 *)
Theorem C06_marked_idx_wide : 2 ^ 32 <= 2 ^ C_bits.
Proof. exact idx_field_wide. Qed.
Print Assumptions C06_marked_idx_wide.
