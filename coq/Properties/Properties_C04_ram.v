(** C04 / C07 / C16 - xenium::ramalhete_queue: property theorems (statements only; the proofs live in
    Proof/RamBase.v, RamTickets.v, RamCons.v, RamInv.v, RamSolo.v, RamExamples.v).
    [RamDefs] is the step-level model of ramalhete_queue<T*, reclaimer<GC>, entries_per_node<E>, pop_retries<R>>
    (one Step per atomic access), tied to the code by trace correspondence (build spec h_uq_gc, cfg q=ram elem=ptr);
    its index arithmetic is the GENERATED one (gen/RamalheteNodeGen.v: C_step_size, C_max_idx) and the proofs
    use the proved [slots_distinct].  E >= 1 with C_step_size E * E < 2^32, R arbitrary; any number of
    threads, any program, any schedule; [g_ovf st = false]: no 32-bit counter has wrapped so far (C04_ram_ovf_meaning).
    Ticket (n, k): k-th fetch_add value of node n, entry [slot_of E (SS E * k)]; [pa]/[pd]: push/pop tickets handed
    out on a node; [all_tickets]: global ticket order (node order, then ticket order); values = token blocks. *)
From Coq Require Import NArith List Bool Permutation.
From XV Require Import Base.Word Conc.Lts Conc.Ev Conc.Solo gen.RamalheteNodeGen Proof.RamalheteNode Model.RamDefs
  Proof.RamBase Proof.RamTickets Proof.RamCons Proof.RamInv Proof.RamSolo Proof.RamExamples.
Import ListNotations.
Local Open Scope N_scope.

(** the wrap flag: it is set exactly by a fetch_add whose 32-bit result wraps, and never cleared *)
Theorem C04_ram_ovf_meaning :
  forall E R : N,
       1 <= E ->
       C_step_size E * E < 2 ^ 32 ->
       forall (s : state) (a : action) (s' : state) (es : list ev),
       step E R s a = Some (s', es) ->
       g_ovf s' = g_ovf s \/
       g_ovf s = false /\
       g_ovf s' = true /\
       (exists (t : nat) (n : N),
          a = Step t /\
          ((exists b : N, th s t = P2 b n /\ 2 ^ 32 <= pushi s n + SS E) \/
           th s t = D5 n /\ 2 ^ 32 <= popi s n + SS E)).
Proof. exact ram_ovf_meaning. Qed.
Print Assumptions C04_ram_ovf_meaning.

(** STRUCTURE: the node chain (all nodes ever linked; retired prefix, head, tail last or second-last), counters are multiples of the generated step, full / drained / untouched nodes *)
Theorem C04_ram_chain :
  forall E R : N,
       1 <= E ->
       C_step_size E * E < 2 ^ 32 ->
       forall st : state,
       reach init (step E R) st ->
       g_ovf st = false ->
       lpath (nnext st) (g_nodes st) /\
       NoDup (g_nodes st) /\
       (forall n : N, In n (g_nodes st) -> n <> 0 /\ n < nalloc st) /\
       (exists rest : list N,
          g_nodes st = g_retired st ++ head st :: rest /\ (forall n : N, In n rest -> popi st n = 0)) /\
       (exists l0 : list N, g_nodes st = l0 ++ [tail st] \/ (exists x : N, g_nodes st = l0 ++ [tail st; x])) /\
       nnext st (last (g_nodes st) 0) = 0 /\
       (forall n : N, In n (g_nodes st) -> pushi st n = SS E * pa E st n /\ popi st n = SS E * pd E st n) /\
       (forall n : N, In n (g_nodes st) -> nnext st n <> 0 -> E + 1 <= pa E st n) /\
       (forall n : N, In n (g_retired st) -> E + 1 <= pd E st n).
Proof. exact ram_chain. Qed.
Print Assumptions C04_ram_chain.

(** STRUCTURE: ticket counters of linked nodes are monotone, a non-null next is final, chain and retired list only grow *)
Theorem C04_ram_step_monotone :
  forall E R : N,
       1 <= E ->
       C_step_size E * E < 2 ^ 32 ->
       forall (st : state) (a : action) (st' : state) (es : list ev),
       reach init (step E R) st ->
       step E R st a = Some (st', es) ->
       g_ovf st' = false ->
       (exists more : list N, g_nodes st' = g_nodes st ++ more) /\
       (exists more : list N, g_retired st' = g_retired st ++ more) /\
       (forall n : N,
        In n (g_nodes st) ->
        popi st n <= popi st' n /\ pushi st n <= pushi st' n /\ (nnext st n <> 0 -> nnext st' n = nnext st n)).
Proof. exact ram_step_monotone. Qed.
Print Assumptions C04_ram_step_monotone.

(** STRUCTURE: every ticket below E of a node belongs to at most one pusher and at most one popper *)
Theorem C04_ram_ticket_owners :
  forall E R : N,
       1 <= E ->
       C_step_size E * E < 2 ^ 32 ->
       forall st : state,
       reach init (step E R) st ->
       g_ovf st = false ->
       (forall (t1 t2 : nat) (b1 b2 n idx : N), th st t1 = P8 b1 n idx -> th st t2 = P8 b2 n idx -> t1 = t2) /\
       (forall (t1 t2 : nat) (n idx : N),
        dtk2 (th st t1) = Some (n, idx) -> dtk2 (th st t2) = Some (n, idx) -> t1 = t2) /\
       (forall (t : nat) (b n idx : N),
        th st t = P8 b n idx ->
        In n (g_nodes st) /\ idx = SS E * tick_of E idx /\ tick_of E idx < E /\ tick_of E idx < pa E st n) /\
       (forall (t : nat) (n idx : N),
        dtk2 (th st t) = Some (n, idx) ->
        In n (g_nodes st) /\ idx = SS E * tick_of E idx /\ tick_of E idx < E /\ tick_of E idx < pd E st n).
Proof. exact ram_ticket_owners. Qed.
Print Assumptions C04_ram_ticket_owners.

(** STRUCTURE: the entry of a ticket and its ghost fate; a claimed ticket that is still null/filled has its claimant at work *)
Theorem C04_ram_ticket_state :
  forall E R : N,
       1 <= E ->
       C_step_size E * E < 2 ^ 32 ->
       forall (st : state) (n k : N),
       reach init (step E R) st ->
       g_ovf st = false ->
       In n (g_nodes st) ->
       k < E ->
       match g_fate st n k with
       | FNone =>
           ent st n (slot_of E (SS E * k)) = CNull /\
           (k < pa E st n -> powner E st n k) /\ (k < pd E st n -> downer E st n k)
       | FFilled b => ent st n (slot_of E (SS E * k)) = CVal b /\ k < pa E st n /\ (k < pd E st n -> downer E st n k)
       | FPoisoned => ent st n (slot_of E (SS E * k)) = CTaken /\ k < pd E st n
       | FConsumed b =>
           (ent st n (slot_of E (SS E * k)) = CVal b \/ ent st n (slot_of E (SS E * k)) = CTaken) /\
           k < pa E st n /\ k < pd E st n
       end.
Proof. exact ram_ticket_state. Qed.
Print Assumptions C04_ram_ticket_state.

(** STRUCTURE: an entry goes null -> value -> taken or null -> taken (poisoned), never back *)
Theorem C04_ram_entry_lifecycle :
  forall E R : N,
       1 <= E ->
       C_step_size E * E < 2 ^ 32 ->
       forall (st : state) (a : action) (st' : state) (es : list ev),
       reach init (step E R) st ->
       step E R st a = Some (st', es) ->
       g_ovf st' = false ->
       forall n i : N,
       In n (g_nodes st) ->
       ent st' n i = ent st n i \/
       ent st n i = CNull /\ (exists b : N, ent st' n i = CVal b) \/
       ent st n i = CNull /\ ent st' n i = CTaken \/ (exists b : N, ent st n i = CVal b /\ ent st' n i = CTaken).
Proof. exact ram_entry_lifecycle. Qed.
Print Assumptions C04_ram_entry_lifecycle.

(** STRUCTURE: the same on the ghost level *)
Theorem C04_ram_fate_lifecycle :
  forall E R : N,
       1 <= E ->
       C_step_size E * E < 2 ^ 32 ->
       forall (st : state) (a : action) (st' : state) (es : list ev),
       reach init (step E R) st ->
       step E R st a = Some (st', es) ->
       g_ovf st' = false ->
       forall n k : N,
       In n (g_nodes st) ->
       k < E ->
       g_fate st' n k = g_fate st n k \/
       g_fate st n k = FNone /\ (exists b : N, g_fate st' n k = FFilled b) \/
       g_fate st n k = FNone /\ g_fate st' n k = FPoisoned \/
       (exists b : N, g_fate st n k = FFilled b /\ g_fate st' n k = FConsumed b).
Proof. exact ram_fate_lifecycle. Qed.
Print Assumptions C04_ram_fate_lifecycle.

(** CONSERVATION (C04/C07), every reachable state: popped values are duplicate free and were pushed; pushed = popped + values under filled tickets (in ticket order), as multisets without duplicates *)
Theorem C04_ram_conservation :
  forall E R : N,
       1 <= E ->
       C_step_size E * E < 2 ^ 32 ->
       forall st : state,
       reach init (step E R) st ->
       g_ovf st = false ->
       NoDup (g_pushed st) /\
       NoDup (g_popped st) /\
       incl (g_popped st) (g_pushed st) /\
       NoDup (contents E st) /\
       (forall b : N, In b (g_popped st) -> ~ In b (contents E st)) /\
       Permutation (g_pushed st) (g_popped st ++ contents E st).
Proof. exact ram_conservation. Qed.
Print Assumptions C04_ram_conservation.

(** the ghost lists are the stored / consumed ticket values up to order (the CAS order is not the ticket order: C04_ram_cas_order_refuted) *)
Theorem C04_ram_seq_perm :
  forall E R : N,
       1 <= E ->
       C_step_size E * E < 2 ^ 32 ->
       forall st : state,
       reach init (step E R) st ->
       g_ovf st = false ->
       Permutation (g_pushed st) (pushed_seq E st) /\ Permutation (g_popped st) (consumed_seq E st).
Proof. exact ram_seq_perm. Qed.
Print Assumptions C04_ram_seq_perm.

(** ORDER: a ticket is handed out iff it is below the counter *)
Theorem C04_ram_claimed :
  forall E R : N,
       1 <= E ->
       C_step_size E * E < 2 ^ 32 ->
       forall (st : state) (n k : N),
       reach init (step E R) st ->
       g_ovf st = false ->
       In n (g_nodes st) ->
       k < E -> (In (n, k) (g_ptk st) <-> k < pa E st n) /\ (In (n, k) (g_dtk st) <-> k < pd E st n).
Proof. exact ram_claimed. Qed.
Print Assumptions C04_ram_claimed.

(** ORDER: tickets are handed out in the global ticket order without gaps, to pushers and to poppers *)
Theorem C04_ram_ticket_order :
  forall E R : N,
       1 <= E ->
       C_step_size E * E < 2 ^ 32 ->
       forall st : state,
       reach init (step E R) st ->
       g_ovf st = false ->
       (exists r : list (N * N), all_tickets E st = g_ptk st ++ r) /\
       (exists r : list (N * N), all_tickets E st = g_dtk st ++ r).
Proof. exact ram_ticket_order. Qed.
Print Assumptions C04_ram_ticket_order.

(** ORDER: a step appends at most one ticket, the one the stepping thread receives: later in time = later in the global order (real-time consistency of the ticket order) *)
Theorem C04_ram_issue_step :
  forall (E R : N) (s : state) (a : action) (s' : state) (es : list ev),
       step E R s a = Some (s', es) ->
       (g_ptk s' = g_ptk s \/
        (exists (t : nat) (x : N * N),
           a = Step t /\
           g_ptk s' = g_ptk s ++ [x] /\
           ((exists b idx : N, th s' t = P8 b (fst x) idx /\ snd x = tick_of E idx) \/
            (exists tl : N, th s' t = P7 tl (fst x) /\ snd x = 0)))) /\
       (g_dtk s' = g_dtk s \/
        (exists (t : nat) (x : N * N),
           a = Step t /\
           g_dtk s' = g_dtk s ++ [x] /\ (exists idx : N, th s' t = D9 (fst x) idx 0 /\ snd x = tick_of E idx))).
Proof. exact ram_issue_step. Qed.
Print Assumptions C04_ram_issue_step.

(** ORDER (FIFO): the claimed tickets are a prefix; behind it nothing has left; inside it everything is poisoned, consumed or being taken by its popper *)
Theorem C04_ram_fifo :
  forall E R : N,
       1 <= E ->
       C_step_size E * E < 2 ^ 32 ->
       forall st : state,
       reach init (step E R) st ->
       g_ovf st = false ->
       exists r : list (N * N),
         all_tickets E st = g_dtk st ++ r /\
         (forall n k : N, In (n, k) r -> g_fate st n k = FNone \/ (exists b : N, g_fate st n k = FFilled b)) /\
         (forall n k : N,
          In (n, k) (g_dtk st) ->
          g_fate st n k = FPoisoned \/ (exists b : N, g_fate st n k = FConsumed b) \/ downer E st n k).
Proof. exact ram_fifo. Qed.
Print Assumptions C04_ram_fifo.

(** QUIESCENCE: the fate of every ticket is determined by the two counters of its node *)
Theorem C04_ram_quiescent_tickets :
  forall E R : N,
       1 <= E ->
       C_step_size E * E < 2 ^ 32 ->
       forall (st : state) (n k : N),
       reach init (step E R) st ->
       g_ovf st = false ->
       quiescent st ->
       In n (g_nodes st) ->
       k < E ->
       (k < pd E st n -> g_fate st n k = FPoisoned \/ (exists b : N, g_fate st n k = FConsumed b)) /\
       (pd E st n <= k ->
        k < pa E st n -> exists b : N, g_fate st n k = FFilled b /\ ent st n (slot_of E (SS E * k)) = CVal b) /\
       (pd E st n <= k -> pa E st n <= k -> g_fate st n k = FNone /\ ent st n (slot_of E (SS E * k)) = CNull).
Proof. exact ram_quiescent_tickets. Qed.
Print Assumptions C04_ram_quiescent_tickets.

(** ORDER (FIFO) at quiescence: in ticket order, stored values = consumed values ++ queue contents *)
Theorem C04_ram_fifo_quiescent :
  forall E R : N,
       1 <= E ->
       C_step_size E * E < 2 ^ 32 ->
       forall st : state,
       reach init (step E R) st ->
       g_ovf st = false ->
       quiescent st ->
       pushed_seq E st = consumed_seq E st ++ contents E st /\
       Permutation (g_pushed st) (pushed_seq E st) /\ Permutation (g_popped st) (consumed_seq E st).
Proof. exact ram_fifo_quiescent. Qed.
Print Assumptions C04_ram_fifo_quiescent.

(** C07 at destruction: the GENERATED node destructor deletes exactly the filled tickets of a node (each once), nothing for a retired node *)
Theorem C04_ram_quiescent_dtor :
  forall E R : N,
       1 <= E ->
       C_step_size E * E < 2 ^ 32 ->
       forall (st : state) (n : N),
       reach init (step E R) st ->
       g_ovf st = false ->
       quiescent st ->
       In n (g_nodes st) ->
       (forall (fuel : nat) (mem : mem_t),
        (N.to_nat E < fuel)%nat ->
        node_dtor E fuel (popi st n) (pushi st n) mem =
        Some (fold_left (del_step E) (tickets (pd E st n) (N.min (pa E st n) E)) mem)) /\
       (forall k : N, k < E -> pd E st n <= k < N.min (pa E st n) E <-> (exists b : N, g_fate st n k = FFilled b)) /\
       (forall k b : N, k < E -> g_fate st n k = FFilled b -> ent st n (slot_of E (SS E * k)) = CVal b) /\
       (In n (g_retired st) -> tickets (pd E st n) (N.min (pa E st n) E) = []).
Proof. exact ram_quiescent_dtor. Qed.
Print Assumptions C04_ram_quiescent_dtor.

(** EMPTINESS: 'empty' is answered only at the two exits D4 / D6 *)
Theorem C04_ram_empty_exits :
  forall (E R : N) (t : nat) (s : state) (a : action) (s' : state) (es : list ev),
       step E R s a = Some (s', es) ->
       In (ERet t [0]) es -> a = Step t /\ ((exists h : N, th s t = D4 h) \/ (exists h : N, th s t = D6 h)).
Proof. exact ram_empty_exits. Qed.
Print Assumptions C04_ram_empty_exits.

(** EMPTINESS, exit 1: in the state in which push_idx was read, h is head and last node, pop_idx >= push_idx, next = null and every filled ticket is claimed by a popper (queue empty once entitled pops are counted as done) *)
Theorem C04_ram_empty_lp1 :
  forall E R : N,
       1 <= E ->
       C_step_size E * E < 2 ^ 32 ->
       forall (t : nat) (s0 sa s1 s2 : state) (ea eb : list ev) (h p : N),
       reach init (step E R) s0 ->
       th s0 t = D3 h p ->
       step E R s0 (Step t) = Some (sa, ea) ->
       run_others E R t sa s1 ->
       step E R s1 (Step t) = Some (s2, eb) ->
       In (ERet t [0]) eb ->
       g_ovf s2 = false ->
       th sa t = D4 h /\
       pushi s0 h <= p /\
       p <= popi s0 h /\
       head s0 = h /\ nnext s0 h = 0 /\ g_nodes s0 = g_retired s0 ++ [h] /\ nnext s1 h = 0 /\ all_filled_claimed E s0.
Proof. exact ram_empty_lp1. Qed.
Print Assumptions C04_ram_empty_lp1.

(** EMPTINESS, exit 2: same, in the state in which next is read *)
Theorem C04_ram_empty_lp2 :
  forall E R : N,
       1 <= E ->
       C_step_size E * E < 2 ^ 32 ->
       forall (t : nat) (s s' : state) (es : list ev) (h : N),
       reach init (step E R) s ->
       th s t = D6 h ->
       step E R s (Step t) = Some (s', es) ->
       In (ERet t [0]) es ->
       g_ovf s' = false ->
       head s = h /\ nnext s h = 0 /\ g_nodes s = g_retired s ++ [h] /\ E + 1 <= pd E s h /\ all_filled_claimed E s.
Proof. exact ram_empty_lp2. Qed.
Print Assumptions C04_ram_empty_lp2.

(** RESULT of a successful pop: the value of the ticket handed to it *)
Theorem C04_ram_pop_result :
  forall E R : N,
       1 <= E ->
       C_step_size E * E < 2 ^ 32 ->
       forall (t : nat) (s : state) (a : action) (s' : state) (es : list ev) (x : N),
       reach init (step E R) s ->
       step E R s a = Some (s', es) ->
       In (ERet t [1; x]) es ->
       g_ovf s' = false ->
       a = Step t /\
       (exists h idx b : N,
          x = tokv s b /\
          (th s t = D10 h idx b \/ th s t = D11 h idx) /\
          In h (g_nodes s) /\
          tick_of E idx < E /\
          In (h, tick_of E idx) (g_dtk s) /\
          g_fate s' h (tick_of E idx) = FConsumed b /\ In b (g_popped s') /\ In b (g_pushed s')).
Proof. exact ram_pop_result. Qed.
Print Assumptions C04_ram_pop_result.

(** a popper never reads "taken" from its own ticket *)
Theorem C04_ram_never_bogus :
  forall E R : N,
       1 <= E ->
       C_step_size E * E < 2 ^ 32 ->
       forall (t : nat) (s : state) (a : action) (s' : state) (es : list ev),
       reach init (step E R) s -> step E R s a = Some (s', es) -> g_ovf s' = false -> ~ In (ERet t [2]) es.
Proof. exact ram_never_bogus. Qed.
Print Assumptions C04_ram_never_bogus.

(** the number printed for a value is the one given at its allocation *)
Theorem C04_ram_tokv_stable :
  forall E R : N,
       1 <= E ->
       C_step_size E * E < 2 ^ 32 ->
       forall (s : state) (a : action) (s' : state) (es : list ev),
       step E R s a = Some (s', es) -> forall b : N, b < nalloc s -> tokv s' b = tokv s b.
Proof. exact ram_tokv_stable. Qed.
Print Assumptions C04_ram_tokv_stable.

(** a push hands its value over exactly once *)
Theorem C04_ram_push_once :
  forall (E R : N) (s : state) (a : action) (s' : state) (es : list ev),
       step E R s a = Some (s', es) ->
       g_pushed s' = g_pushed s \/
       (exists (t : nat) (b : N),
          a = Step t /\ g_pushed s' = g_pushed s ++ [b] /\ holds (th s t) = Some b /\ holds (th s' t) = None).
Proof. exact ram_push_once. Qed.
Print Assumptions C04_ram_push_once.

(** RECLAMATION SAFETY of the node hand-over (the tail CAS (16) in pop): _tail never points to a retired node *)
Theorem C04_ram_tail_not_retired :
  forall E R : N,
       1 <= E ->
       C_step_size E * E < 2 ^ 32 ->
       forall st : state,
       reach init (step E R) st -> g_ovf st = false -> forall n : N, In n (g_retired st) -> tail st <> n.
Proof. exact ram_tail_not_retired. Qed.
Print Assumptions C04_ram_tail_not_retired.

(** no node reachable from _head or from _tail along next pointers is retired *)
Theorem C04_ram_live_not_retired :
  forall E R : N,
       1 <= E ->
       C_step_size E * E < 2 ^ 32 ->
       forall st : state,
       reach init (step E R) st ->
       g_ovf st = false ->
       forall n : N, nreach (nnext st) (head st) n \/ nreach (nnext st) (tail st) n -> ~ In n (g_retired st).
Proof. exact ram_live_not_retired. Qed.
Print Assumptions C04_ram_live_not_retired.

(** a thread about to execute the head CAS (13) for node h: _tail is not on h (and stays off it) *)
Theorem C04_ram_head_cas_tail_off :
  forall E R : N,
       1 <= E ->
       C_step_size E * E < 2 ^ 32 ->
       forall (st : state) (t : nat) (h nx : N),
       reach init (step E R) st -> g_ovf st = false -> th st t = D7 h nx -> tail st <> h.
Proof. exact ram_head_cas_tail_off. Qed.
Print Assumptions C04_ram_head_cas_tail_off.

(** REFUTED for the code BEFORE the repair ([step_gen 1 0 true]: pop without the tail CAS; E = 1): a stopped pusher has
    linked a node but not swung _tail; a pop retires the old node while _tail still points to it *)
Theorem C04_ram_tail_not_retired_old_refuted :
  ~
       (forall st : state,
        reach init (step_gen 1 0 true) st -> forall n : N, In n (g_retired st) -> tail st <> n).
Proof. exact ram_tail_not_retired_old_refuted. Qed.
Print Assumptions C04_ram_tail_not_retired_old_refuted.

(** the same schedule on the repaired code: the popper swings _tail first, then retires the old node *)
Theorem C04_ram_tail_swung_by_pop_example :
  let st := end_of 1 0 (tail_retired_acts ++ steps 3 1) in
       reach init (step 1 0) st /\
       g_ovf st = false /\ th st 2 = P7 1 4 /\ g_nodes st = [1; 4] /\ g_retired st = [1] /\ head st = 4 /\ tail st = 4.
Proof. exact tail_swung_by_pop_example. Qed.
Print Assumptions C04_ram_tail_swung_by_pop_example.

(** REFUTED reading: the order of the successful entry CASes is not the order in which values leave (E = 2; replayed on the real code) *)
Theorem C04_ram_cas_order_refuted :
  ~
       (forall st : state,
        reach init (step 2 0) st -> g_ovf st = false -> exists r : list N, g_pushed st = g_popped st ++ r).
Proof. exact ram_cas_order_refuted. Qed.
Print Assumptions C04_ram_cas_order_refuted.

(** REFUTED reading: 'empty' although a filled, unconsumed ticket exists during the whole call (E = 1; the value belongs to an overlapping pop; replayed on the real code) *)
Theorem C04_ram_empty_naive_refuted :
  let s1 := end_of 1 0 naive_prefix in
       let r := run (step 1 0) s1 naive_call in
       reach init (step 1 0) s1 /\
       th s1 3 = Idle /\
       snd r = 0%nat /\
       In (ERet 3 [0]) (snd (fst r)) /\
       th (fst (fst r)) 3 = Idle /\
       g_ovf (fst (fst r)) = false /\
       (forall s : state, In s (states_along 1 0 s1 naive_call) -> g_fate s 1 0 = FFilled 2 /\ contents 1 s <> []) /\
       In (ERet 2 [1; 10]) (snd (fst (run (step 1 0) (fst (fst r)) (steps 2 2)))).
Proof. exact ram_empty_naive_refuted. Qed.
Print Assumptions C04_ram_empty_naive_refuted.

(** C16: solo termination within the measure *)
Theorem C04_ram_solo :
  forall E R : N,
       1 <= E ->
       C_step_size E * E < 2 ^ 32 ->
       forall (t : nat) (s : state),
       reach init (step E R) s ->
       g_ovf s = false -> headroom E s (mu E R t s) -> finishes_within (step E R) Step idle t (mu E R t s) s.
Proof. exact ram_solo. Qed.
Print Assumptions C04_ram_solo.

(** C16: push finishes solo within (E+R+14)*(E+3) steps *)
Theorem C04_ram_solo_push :
  forall E R : N,
       1 <= E ->
       C_step_size E * E < 2 ^ 32 ->
       forall (t : nat) (s : state),
       reach init (step E R) s ->
       g_ovf s = false ->
       is_push (th s t) = true ->
       headroom E s (push_bound E R) -> finishes_within (step E R) Step idle t (push_bound E R) s.
Proof. exact ram_solo_push. Qed.
Print Assumptions C04_ram_solo_push.

(** C16: pop finishes solo within (E+R+14)*((E+1)*(nodes from head on)+2) steps (a hand-over iteration of the pop loop is
    8 steps with the tail CAS (16); the loop weight E+R+14 covers it) *)
Theorem C04_ram_solo_pop :
  forall E R : N,
       1 <= E ->
       C_step_size E * E < 2 ^ 32 ->
       forall (t : nat) (s : state),
       reach init (step E R) s ->
       g_ovf s = false ->
       is_push (th s t) = false ->
       headroom E s (pop_bound E R s) -> finishes_within (step E R) Step idle t (pop_bound E R s) s.
Proof. exact ram_solo_pop. Qed.
Print Assumptions C04_ram_solo_pop.

