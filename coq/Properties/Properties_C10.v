(** C10 - vyukov_hash_map: property theorems (proofs in Proof/BucketState.v).
    The [bs_*] operations and [C_*] constants are GENERATED from vyukov_hash_map<...>::bucket_state on every run:
    a 32-bit word with bit 0 = lock, bits 1..2 = item_count, bits 3..4 = delete_marker, bits 5..31 = version.
    Lock-free readers (try_get_value) validate against the version and the delete marker; writers and iterators
    write such words back when they unlock a bucket. *)
From Coq Require Import NArith List.
From XV Require Import Base.Word gen.BucketStateGen Proof.BucketState.
Local Open Scope N_scope.

(** every word decomposes uniquely into (lock, item_count, delete_marker, version) *)
Theorem C10_state_fields : forall v w, v < 2 ^ 32 -> w < 2 ^ 32 ->
  (v = w <-> bs_is_locked v = bs_is_locked w /\ bs_item_count v = bs_item_count w /\
             bs_delete_marker v = bs_delete_marker w /\ bs_version v = bs_version w).
Proof. exact bs_eq_fields. Qed.
Print Assumptions C10_state_fields.

Theorem C10_state_decompose : forall v, v < 2 ^ 32 ->
  v = b2n (bs_is_locked v) + 2 * bs_item_count v + 8 * bs_delete_marker v + 32 * bs_version v /\
  bs_item_count v < 4 /\ bs_delete_marker v < 4 /\ bs_version v < 2 ^ 27.
Proof. exact bs_decompose. Qed.
Print Assumptions C10_state_decompose.

(** new_version changes nothing but the version, and every number of removals below 2^27 performed while
    a bucket is locked leaves a version that differs from the one a reader saw before: the reader's
    validation (state.version() != state2.version()) detects every removal, also those made through an iterator *)
Theorem C10_new_version : forall v, v < 2 ^ 32 ->
  bs_version (bs_new_version v) = (bs_version v + 1) mod 2 ^ 27 /\
  bs_is_locked (bs_new_version v) = bs_is_locked v /\
  bs_item_count (bs_new_version v) = bs_item_count v /\
  bs_delete_marker (bs_new_version v) = bs_delete_marker v.
Proof. intros v Hv. repeat split; [apply bs_new_version_version|apply bs_new_version_is_locked|apply bs_new_version_item_count|apply bs_new_version_delete_marker]; exact Hv. Qed.
Print Assumptions C10_new_version.

Theorem C10_removals_change_version : forall i j v, v < 2 ^ 32 -> i < j -> j - i < 2 ^ 27 ->
  bs_version (N.iter j bs_new_version v) <> bs_version (N.iter i bs_new_version v).
Proof. intros i j v Hv Hij Hd. apply bs_new_version_iter_version_distinct; assumption. Qed.
Print Assumptions C10_removals_change_version.

(** item count and delete marker updates touch only their own field *)
Theorem C10_inc_dec_item_count : forall v, v < 2 ^ 32 -> bs_item_count v < 3 ->
  bs_item_count (bs_inc_item_count v) = bs_item_count v + 1 /\ bs_version (bs_inc_item_count v) = bs_version v /\
  bs_is_locked (bs_inc_item_count v) = bs_is_locked v /\ bs_delete_marker (bs_inc_item_count v) = bs_delete_marker v /\
  bs_dec_item_count (bs_inc_item_count v) = v.
Proof. intros v Hv Hc. repeat split; [apply bs_inc_item_count_item_count|apply bs_inc_item_count_version|apply bs_inc_item_count_is_locked|apply bs_inc_item_count_delete_marker|apply bs_dec_inc_item_count]; assumption. Qed.
Print Assumptions C10_inc_dec_item_count.

Theorem C10_delete_marker : forall v m, bs_delete_marker v = 0 -> m < 4 ->
  bs_delete_marker (bs_set_delete_marker v m) = m /\ bs_is_locked (bs_set_delete_marker v m) = bs_is_locked v /\
  bs_item_count (bs_set_delete_marker v m) = bs_item_count v /\ bs_version (bs_set_delete_marker v m) = bs_version v.
Proof. intros v m H0 Hm. repeat split; [apply bs_set_delete_marker_delete_marker|apply bs_set_delete_marker_is_locked|apply bs_set_delete_marker_item_count|apply bs_set_delete_marker_version]; assumption. Qed.
Print Assumptions C10_delete_marker.

(** lock bit: locking keeps the other fields, unlocking restores the word *)
Theorem C10_lock : forall v, v < 2 ^ 32 -> bs_is_locked v = false ->
  bs_is_locked (bs_locked v) = true /\ bs_clear_lock (bs_locked v) = v /\ bs_version (bs_locked v) = bs_version v /\
  bs_item_count (bs_locked v) = bs_item_count v /\ bs_delete_marker (bs_locked v) = bs_delete_marker v.
Proof. intros v Hv Hl. repeat split; [apply bs_locked_is_locked|apply bs_clear_lock_locked; exact Hl|apply bs_locked_version|apply bs_locked_item_count|apply bs_locked_delete_marker]. Qed.
Print Assumptions C10_lock.
