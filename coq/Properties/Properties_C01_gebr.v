(** C01 / C02 for xenium::reclamation::generic_epoch_based<Traits>, EVERY configuration of the traits (scan_frequency,
    scan::all_threads / one_thread / n_threads<N>, abandon::never / always / when_exceeds_threshold<T>,
    region_extension::none / eager / lazy; in particular epoch_based, new_epoch_based, debra and the aliases of
    harness/recl_types.hpp): property theorems (statements only; proofs live in Proof/GebrInv.v, Proof/GebrFlush.v, Proof/GebrFlushN.v
    and the layers they name).  [GebrDefs] is the step-level model of the reclaimer, parametrised by [cfg : config], under the generic
    protocol-conforming client of harness/h_recl.cpp (repl / clear / read / hold / drop / deref / enter / leave, thread
    exit), tied to the code by trace correspondence for EBR, NEBR, DEBRA, EBR0, GEBR_lazy, GEBR_n2, GEBR_aband, GEBR_thresh,
    GEBR_t0 and four further points of the configuration space (build/h_gebr<suffix> = h_recl.cpp with rt::XV_RECL and the
    reclaimer's statics named).
    [reach (init nc) (step cfg ns)]: every state reachable with nc cells and ns guard slots per thread, any number of
    threads, any programs, any schedule.
    [holds st u n]: thread u holds a guard_ptr on node n (a persistent guard of the client or the guard of a running
    repl/clear);  [g_nfree st n]: how often the reclaimer ran n's deleter;  [g_where st n]: where the retired node n is;
    [g_life st n = LRet t r]: n was unlinked and retired by t whose local epoch was r;  [g_uaf]: a dereference hit a
    destroyed node;  [ve p x le]: the validated epoch of a thread at program point p with thread-local state x and published
    local epoch le;  [sync]: the thread compared its local epoch with the global epoch loaded after its flag was set. *)
From Coq Require Import NArith List.
From XV Require Import Conc.Lts Conc.Ev Model.GebrDefs Proof.GebrBase Proof.GebrShape Proof.GebrOwn Proof.GebrEpoch Proof.GebrNodes Proof.GebrTags Proof.GebrGuards Proof.GebrInv Proof.GebrFlush Proof.GebrFlushN.
Import ListNotations.
Local Open Scope N_scope.

(** C01, MAIN RESULT, every configuration: no object is destroyed while a guard_ptr protects it, and no dereference hits
    a destroyed object *)
Theorem C01_gebr_safe : forall cfg ns nc st, reach (init nc) (step cfg ns) st ->
  (forall u n, holds st u n -> g_nfree st n = O /\ g_where st n <> PFreed /\ g_life st n <> LDropped) /\
  g_uaf st = false.
Proof. exact gebr_safe. Qed.
Print Assumptions C01_gebr_safe.

(** the epoch argument behind it: a thread with a validated epoch v has its critical-region flag set and keeps
    local_epoch <= v <= global_epoch <= v + 1 - for every scan strategy (also DEBRA's one-thread-per-scan) and every region
    extension (eager / lazy: the thread stays synchronised until the region_guard is destroyed) ... *)
Theorem C01_gebr_epoch_window : forall cfg ns nc st, reach (init nc) (step cfg ns) st ->
  forall u b v, cb (tl st u) = Some b -> ve (th st u) (tl st u) (blocal st b) = Some v ->
    bflag st b = true /\ blocal st b <= v /\ v <= gep st /\ gep st <= v + 1.
Proof. exact gebr_epoch_window. Qed.
Print Assumptions C01_gebr_epoch_window.

(** ... in particular for a thread that holds a guard_ptr: it is synchronised and global_epoch is local_epoch or one more *)
Theorem C01_gebr_guard_window : forall cfg ns nc st, reach (init nc) (step cfg ns) st ->
  forall u n b, holds st u n -> cb (tl st u) = Some b ->
    sync (tl st u) = true /\ bflag st b = true /\ blocal st b <= gep st /\ gep st <= blocal st b + 1.
Proof. exact gebr_guard_window. Qed.
Print Assumptions C01_gebr_guard_window.

(** ... the scan invariant (the iterator of scan::n_threads / one_thread is thread-local state that survives the scanner's
    critical regions): while the global epoch is the scanner's epoch e, a control block the scan does not have to visit any
    more belongs to no thread with a validated epoch below e *)
Theorem C01_gebr_scan_invariant : forall cfg ns nc st, reach (init nc) (step cfg ns) st ->
  forall w bw u b e rem v, cb (tl st w) = Some bw -> scan_of cfg (th st w) (tl st w) (blocal st bw) = Some (e, rem) -> gep st = e ->
    cb (tl st u) = Some b -> ~ In b rem -> ve (th st u) (tl st u) (blocal st b) = Some v -> e <= v.
Proof. exact gebr_scan_invariant. Qed.
Print Assumptions C01_gebr_scan_invariant.

(** ... REFUTED: "flag set => window" - new_epoch_based: a thread between two operations, inside a region_guard, its flag
    set, not synchronised, two or more epochs behind *)
Theorem C01_nebr_flag_without_validation_refuted :
  exists st u b, reach (init 2) (step cfg_NEBR 3) st /\ th st u = Idle /\ cb (tl st u) = Some b /\ bflag st b = true /\
    sync (tl st u) = false /\ blocal st b + 1 < gep st.
Proof. exact nebr_flag_without_validation_refuted. Qed.
Print Assumptions C01_nebr_flag_without_validation_refuted.

(** ... and a node retired in local epoch r is freed only when global_epoch >= r + 3, whatever way it took (retire list,
    abandoned / handed over / put back to an orphan list, adopted) *)
Theorem C01_gebr_free_epoch : forall cfg ns nc st, reach (init nc) (step cfg ns) st ->
  forall n t r, g_where st n = PFreed -> g_life st n = LRet t r -> r + 3 <= gep st.
Proof. exact gebr_free_epoch. Qed.
Print Assumptions C01_gebr_free_epoch.

(** C02, safety half, every configuration: a retired object is destroyed at most once, only retired objects are destroyed by
    the reclaimer, a retired object is in exactly one place (a retire list, an orphan list - abandoned by a living thread,
    handed over by an exiting one, or put back after a lost race -, adopted in flight, or freed), nothing is dropped or
    duplicated *)
Theorem C02_gebr_exactly_once : forall cfg ns nc st, reach (init nc) (step cfg ns) st ->
  (forall n, (g_nfree st n <= 1)%nat) /\
  (forall n, g_nfree st n = 1%nat <-> g_where st n = PFreed) /\
  (forall n, g_where st n <> PNone <-> exists t r, g_life st n = LRet t r) /\
  (forall u i n, In n (rl (tl st u) i) <-> g_where st n = PList u i) /\
  (forall i n, In n (orph st i) <-> g_where st n = POrph i) /\
  (forall u n, In n (flight (th st u)) <-> g_where st n = PFlight u) /\
  (forall u i, NoDup (rl (tl st u) i)) /\ (forall i, NoDup (orph st i)) /\ (forall u, NoDup (flight (th st u))).
Proof. exact gebr_exactly_once. Qed.
Print Assumptions C02_gebr_exactly_once.

(** every FREE event of the trace: the client's delete of its own unpublished node, the harness' delete of a region_guard
    object, or the reclaimer's first and only delete of a retired node *)
Theorem C02_gebr_free_event : forall cfg ns nc st a st' es, reach (init nc) (step cfg ns) st -> step cfg ns st a = Some (st', es) ->
  forall t n, In (EFree t n) es ->
    (g_life st n = LFresh t /\ g_life st' n = LDropped) \/
    is_rg_free st t n \/
    ((exists t' r, g_life st n = LRet t' r) /\ g_nfree st n = O /\ g_nfree st' n = 1%nat).
Proof. exact gebr_free_event. Qed.
Print Assumptions C02_gebr_free_event.

(** C02, liveness half as a bounded solo run, EVERY configuration (scan::n_threads<N> with N >= 1; n_threads<0> never
    advances the epoch).  [Quiet cfg ns nc t c s b]: s is reachable, thread t is between operations, owns control block b,
    holds no guard and no region_guard, every control block of the list has is_in_critical_region = false (no thread is
    inside a critical region), cell c is not null.  [flush cfg ns t c k s s']: t executes k repl operations on cell c alone
    (each one runs to completion: acquire a guard = enter a critical region, replace the node, retire the old one - the
    teardown of the harness), ending in s'.  After [flush_ops cfg L] operations, L the number of thread control blocks,
    every node that was in an orphan list (abandoned by a living thread, handed over by an exited one, put back) or in one
    of t's retire lists is freed:
      scan::all_threads, scan frequency F:    3 F + 4                      (epoch_based / new_epoch_based: 304; EBR, NEBR, GEBR_lazy,
                                                                            GEBR_aband, GEBR_thresh, GEBR_t0: 7; EBR0: 4)
      scan::n_threads<N>, scan frequency F:   1 + 3 (F + 1) ceil(L / N)    (debra: 1 + 63 L; DEBRA: 1 + 6 L; GEBR_n2: 1 + 3 ceil(L / 2)) *)
Theorem C02_gebr_no_leak_at_quiescence : forall cfg ns nc t c, (forall n, scan_strat cfg = ScanN n -> (1 <= n)%nat) ->
  forall s b, Quiet cfg ns nc t c s b ->
  exists s', flush cfg ns t c (flush_ops cfg (length (blist s))) s s' /\ Quiet cfg ns nc t c s' b /\
    forall n, (g_where s n = PFreed \/ exists i, g_where s n = POrph i \/ g_where s n = PList t i) -> g_where s' n = PFreed.
Proof. exact gebr_no_leak_at_quiescence. Qed.
Print Assumptions C02_gebr_no_leak_at_quiescence.

Theorem C02_gebr_flush_ops_all_threads : forall cfg L, scan_strat cfg = ScanAll -> flush_ops cfg L = (3 * scan_freq cfg + 4)%nat.
Proof. intros cfg L H. unfold flush_ops. rewrite H. reflexivity. Qed.
Print Assumptions C02_gebr_flush_ops_all_threads.

Theorem C02_gebr_flush_ops_n_threads : forall cfg L n, scan_strat cfg = ScanN n ->
  flush_ops cfg L = (1 + 3 * ((scan_freq cfg + 1) * S (Nat.div (Nat.sub L 1) n)))%nat.
Proof. intros cfg L n H. unfold flush_ops. rewrite H. reflexivity. Qed.
Print Assumptions C02_gebr_flush_ops_n_threads.
