(** C15 - guard_ptr smart-pointer algebra, on the executable guard / slot models of hazard_pointer and hazard_eras
    (Model/HpSlotsDefs.v, Model/HeSlotsDefs.v; tied to the real guard_ptrs by the differential run): reset empties the
    guard and returns its slot, move transfers the slot and empties the source, copy makes a second, independently
    protecting guard, swap exchanges the guards together with their slots.  Statements only. *)
From Coq Require Import List Arith Permutation.
From XV Require Import Model.HpSlotsDefs Proof.HpSlots Model.HeSlotsDefs Proof.HeSlots Proof.GuardAlgebra.
Import ListNotations.

Theorem C15_hp_reset_empties : forall cfg ops g gd i, 1 <= cK cfg ->
  let st := snd (run cfg ops) in
  get_g st g = Some gd -> g_hp gd = Some i ->
  let st' := state_after cfg st (GReset g) in
  outcome_of cfg st (GReset g) = Ok /\
  get_g st' g = Some empty_guard /\ (forall g', g' <> g -> get_g st' g' = get_g st g') /\
  free_list (pl st') = i :: free_list (pl st) /\
  held_count st' + 1 = held_count st /\
  (exists p, p_alloc cfg (pl st') = AOk i p).
Proof. exact reset_returns_slot. Qed.
Print Assumptions C15_hp_reset_empties.

Theorem C15_hp_move_empties_source : forall cfg ops op dst src dd sd, 1 <= cK cfg ->
  let st := snd (run cfg ops) in
  op = GMoveCtor dst src \/ op = GMoveAssign dst src -> dst <> src ->
  get_g st dst = Some dd -> get_g st src = Some sd ->
  let st' := state_after cfg st op in
  outcome_of cfg st op = Ok /\
  get_g st' dst = Some sd /\ get_g st' src = Some empty_guard /\
  (forall g, g <> dst -> g <> src -> get_g st' g = get_g st g) /\
  free_list (pl st') = hpl dd ++ free_list (pl st) /\
  held_count st' + length (hpl dd) = held_count st.
Proof. exact move_transfers_slot. Qed.
Print Assumptions C15_hp_move_empties_source.

Theorem C15_hp_copy_protects_independently : forall cfg ops dst src dd sd i, 1 <= cK cfg ->
  let st := snd (run cfg ops) in
  dst <> src -> get_g st dst = Some dd -> get_g st src = Some sd -> g_hp sd = Some i -> g_ptr sd <> 0 ->
  let st0 := reset_guard st dst in
  let st' := state_after cfg st (GCopyCtor dst src) in
  alloc_site st (GCopyCtor dst src) = Some st0 /\
  (outcome_of cfg st (GCopyCtor dst src) = Ok ->
   exists j, get_g st' dst = Some {| g_hp := Some j; g_ptr := g_ptr sd; g_mark := g_mark sd |} /\
             j <> i /\ ~ In j (held (guards st0)) /\
             get_g st' src = Some sd /\
             nth_error (slots (pl st')) j = Some (Obj (g_ptr sd)) /\
             nth_error (slots (pl st')) i = Some (Obj (g_ptr sd)) /\
             held_count st' = S (held_count st0)).
Proof. exact copy_takes_new_slot. Qed.
Print Assumptions C15_hp_copy_protects_independently.

Theorem C15_hp_swap_exchanges : forall cfg st a b ga gb,
  get_g st a = Some ga -> get_g st b = Some gb ->
  let st' := state_after cfg st (GSwap a b) in
  outcome_of cfg st (GSwap a b) = Ok /\
  get_g st' b = Some ga /\ (a <> b -> get_g st' a = Some gb) /\
  (forall g, g <> a -> g <> b -> get_g st' g = get_g st g) /\
  pl st' = pl st /\ length (guards st') = length (guards st).
Proof. exact hp_swap_exchanges. Qed.
Print Assumptions C15_hp_swap_exchanges.

Theorem C15_hp_swap_moves_slots : forall cfg st a b ga gb, a <> b ->
  get_g st a = Some ga -> get_g st b = Some gb ->
  let st' := state_after cfg st (GSwap a b) in
  option_map g_hp (get_g st' a) = Some (g_hp gb) /\ option_map g_hp (get_g st' b) = Some (g_hp ga) /\
  option_map g_ptr (get_g st' a) = Some (g_ptr gb) /\ option_map g_ptr (get_g st' b) = Some (g_ptr ga).
Proof. exact hp_swap_moves_slots. Qed.
Print Assumptions C15_hp_swap_moves_slots.

Theorem C15_he_swap_exchanges : forall cfg st a b ga gb,
  h_get st a = Some ga -> h_get st b = Some gb ->
  let st' := snd (h_step_g cfg st (GSwap a b)) in
  fst (fst (h_step_g cfg st (GSwap a b))) = Ok /\
  h_get st' b = Some ga /\ (a <> b -> h_get st' a = Some gb) /\
  (forall g, g <> a -> g <> b -> h_get st' g = h_get st g) /\
  hpool st' = hpool st /\ h_clock st' = h_clock st.
Proof. exact he_swap_exchanges. Qed.
Print Assumptions C15_he_swap_exchanges.
