(** C18 - hazard slots: property theorems (statements only). *)
From Coq Require Import NArith List Bool.
Local Open Scope N_scope.
(** placeholder obligation (the slot allocator model replaces it) *)
Theorem C18_free_plus_used : forall K used : N, used <= K -> (K - used) + used = K.
Proof. intros. apply N.sub_add. assumption. Qed.
Print Assumptions C18_free_plus_used.
