(** C18 - hazard pointer slots: K available, exhaustion reported, slots reusable: property theorems (statements only).
    Model: Model/HpSlotsDefs.v (run against the compiled hazard_pointer guard_ptrs by tools/hpslots_diff.py);
    proofs: Proof/HpSlots.v.  All theorems hold for every K >= 1, every number of guards, both strategies and
    every operation sequence ([run cfg ops] starts in the freshly initialised control block). *)
From Coq Require Import List Arith Permutation.
From XV Require Import Model.HpSlotsDefs Proof.HpSlots Model.HeSlotsDefs Proof.HeSlots.
Import ListNotations.

(** the invariant: free list from [hint] = exactly the slots no guard holds, duplicate free; guards hold distinct
    slots; a held slot contains the guard's object; held + free = all slots *)
Theorem C18_slots_invariant : forall cfg ops, 1 <= cK cfg ->
  let st := snd (run cfg ops) in
  let fl := free_list (pl st) in
  let H := held (guards st) in
  let n := length (slots (pl st)) in
  chain (slots (pl st)) (hint (pl st)) fl /\
  NoDup fl /\ (forall i, In i fl <-> i < n /\ ~ In i H) /\
  NoDup H /\
  (forall g g' gd gd' i, nth_error (guards st) g = Some gd -> g_hp gd = Some i ->
                         nth_error (guards st) g' = Some gd' -> g_hp gd' = Some i -> g = g') /\
  (forall i, In i H -> i < n) /\
  Permutation (fl ++ H) (seq 0 n) /\ length H + length fl = n /\
  (forall g gd i, nth_error (guards st) g = Some gd -> g_hp gd = Some i ->
                  nth_error (slots (pl st)) i = Some (Obj (g_ptr gd)) /\ In (g_ptr gd) (gather (slots (pl st)))) /\
  (forall g gd, nth_error (guards st) g = Some gd -> g_ptr gd <> 0 -> exists i, g_hp gd = Some i) /\
  (forall g gd i, nth_error (guards st) g = Some gd -> g_hp gd = Some i -> g_ptr gd <> 0) /\
  n = cK cfg + list_sum (blocks (pl st)) /\ (cDyn cfg = false -> n = cK cfg) /\
  length (guards st) = cG cfg.
Proof. exact slots_invariant. Qed.
Print Assumptions C18_slots_invariant.

(** static strategy: an operation that needs a new slot succeeds iff fewer than K slots are held, otherwise it
    reports Exhausted (never Invalid, never "ok without a slot"); on success the guard holds the slot that was
    the head of the free list and the slot contains the guard's object; on Exhausted the asking guard is empty *)
Theorem C18_static_alloc_succeeds_iff : forall cfg ops op st0, 1 <= cK cfg -> cDyn cfg = false ->
  let st := snd (run cfg ops) in
  alloc_site st op = Some st0 ->
  let o := outcome_of cfg st op in
  let st' := state_after cfg st op in
  (o = Ok <-> held_count st0 < cK cfg) /\
  (o = Exhausted <-> held_count st0 = cK cfg) /\
  (o = Ok -> exists i gd, get_g st' (target op) = Some gd /\ g_hp gd = Some i /\
                          nth_error (slots (pl st')) i = Some (Obj (g_ptr gd)) /\
                          free_list (pl st0) = i :: free_list (pl st') /\
                          held_count st' = S (held_count st0)) /\
  (o = Exhausted -> st' = st0 /\ get_g st' (target op) <> None /\
                    forall gd, get_g st' (target op) = Some gd -> g_hp gd = None /\ g_ptr gd = 0).
Proof. exact static_alloc_succeeds_iff. Qed.
Print Assumptions C18_static_alloc_succeeds_iff.

Theorem C18_no_slot_needed_no_throw : forall cfg ops op, 1 <= cK cfg ->
  let st := snd (run cfg ops) in
  alloc_site st op = None -> outcome_of cfg st op <> Exhausted /\ (valid_op cfg op -> outcome_of cfg st op = Ok).
Proof. exact no_slot_needed_no_throw. Qed.
Print Assumptions C18_no_slot_needed_no_throw.

(** an Exhausted outcome: only with the static strategy and all K slots held; every other guard keeps slot and
    pointer and its slot still contains the pointer; the asking guard is empty; after resetting any one holding guard
    the same operation succeeds *)
Theorem C18_exhausted_preserves_existing : forall cfg ops op, 1 <= cK cfg ->
  let st := snd (run cfg ops) in
  outcome_of cfg st op = Exhausted ->
  let st' := state_after cfg st op in
  cDyn cfg = false /\ valid_op cfg op /\
  (forall g, g <> target op -> get_g st' g = get_g st g) /\
  (forall g gd i, g <> target op -> get_g st g = Some gd -> g_hp gd = Some i ->
                  nth_error (slots (pl st')) i = Some (Obj (g_ptr gd))) /\
  (forall gd, get_g st' (target op) = Some gd -> g_hp gd = None /\ g_ptr gd = 0) /\
  held_count st' = cK cfg /\
  (forall h gd, get_g st' h = Some gd -> g_hp gd <> None -> outcome_of cfg (reset_guard st' h) op = Ok).
Proof. exact exhausted_preserves_existing. Qed.
Print Assumptions C18_exhausted_preserves_existing.

Theorem C18_reset_returns_slot : forall cfg ops g gd i, 1 <= cK cfg ->
  let st := snd (run cfg ops) in
  get_g st g = Some gd -> g_hp gd = Some i ->
  let st' := state_after cfg st (GReset g) in
  outcome_of cfg st (GReset g) = Ok /\
  get_g st' g = Some empty_guard /\ (forall g', g' <> g -> get_g st' g' = get_g st g') /\
  free_list (pl st') = i :: free_list (pl st) /\
  held_count st' + 1 = held_count st /\
  (exists p, p_alloc cfg (pl st') = AOk i p).
Proof. exact reset_returns_slot. Qed.
Print Assumptions C18_reset_returns_slot.

Theorem C18_move_transfers_slot : forall cfg ops op dst src dd sd, 1 <= cK cfg ->
  let st := snd (run cfg ops) in
  op = GMoveCtor dst src \/ op = GMoveAssign dst src -> dst <> src ->
  get_g st dst = Some dd -> get_g st src = Some sd ->
  let st' := state_after cfg st op in
  outcome_of cfg st op = Ok /\
  get_g st' dst = Some sd /\ get_g st' src = Some empty_guard /\
  (forall g, g <> dst -> g <> src -> get_g st' g = get_g st g) /\
  free_list (pl st') = hpl dd ++ free_list (pl st) /\
  held_count st' + length (hpl dd) = held_count st.
Proof. exact move_transfers_slot. Qed.
Print Assumptions C18_move_transfers_slot.

Theorem C18_copy_takes_new_slot : forall cfg ops dst src dd sd i, 1 <= cK cfg ->
  let st := snd (run cfg ops) in
  dst <> src -> get_g st dst = Some dd -> get_g st src = Some sd -> g_hp sd = Some i -> g_ptr sd <> 0 ->
  let st0 := reset_guard st dst in
  let st' := state_after cfg st (GCopyCtor dst src) in
  alloc_site st (GCopyCtor dst src) = Some st0 /\
  (outcome_of cfg st (GCopyCtor dst src) = Ok ->
   exists j, get_g st' dst = Some {| g_hp := Some j; g_ptr := g_ptr sd; g_mark := g_mark sd |} /\
             j <> i /\ ~ In j (held (guards st0)) /\
             get_g st' src = Some sd /\
             nth_error (slots (pl st')) j = Some (Obj (g_ptr sd)) /\
             nth_error (slots (pl st')) i = Some (Obj (g_ptr sd)) /\
             held_count st' = S (held_count st0)).
Proof. exact copy_takes_new_slot. Qed.
Print Assumptions C18_copy_takes_new_slot.

Theorem C18_no_leak : forall cfg ops, 1 <= cK cfg ->
  let st := snd (run cfg ops) in
  let st' := snd (run_from cfg st (reset_all cfg)) in
  held (guards st') = [] /\
  length (slots (pl st')) = length (slots (pl st)) /\
  Permutation (free_list (pl st')) (seq 0 (length (slots (pl st')))) /\
  length (free_list (pl st')) = length (slots (pl st)).
Proof. exact no_leak. Qed.
Print Assumptions C18_no_leak.

Theorem C18_repeated_acquire_release : forall cfg ops g v m n, 1 <= cK cfg -> v <> 0 ->
  let st := snd (run cfg ops) in
  get_g st g = Some empty_guard -> cDyn cfg = true \/ held_count st < cK cfg ->
  Forall (fun o => o_res o = Ok) (fst (run_from cfg st (concat (repeat [GAcquire g v m; GReset g] n)))).
Proof. exact repeated_acquire_release. Qed.
Print Assumptions C18_repeated_acquire_release.

Theorem C18_dynamic_never_exhausted : forall cfg ops, 1 <= cK cfg -> cDyn cfg = true ->
  Forall (fun o => o_res o <> Exhausted) (fst (run cfg ops)) /\
  (Forall (valid_op cfg) ops -> Forall (fun o => o_res o = Ok) (fst (run cfg ops))).
Proof. exact dynamic_never_exhausted. Qed.
Print Assumptions C18_dynamic_never_exhausted.

(** K PROTECTING guards are available (repaired code: a guard on a null / marked null pointer holds no slot):
    with the static strategy an operation throws only if all K slots are held by guards whose pointer is non-null *)
Theorem C18_K_protecting_guards : forall cfg ops op, 1 <= cK cfg ->
  let st := snd (run cfg ops) in
  outcome_of cfg st op = Exhausted ->
  let st' := state_after cfg st op in
  cDyn cfg = false /\
  protecting_count st' = cK cfg /\ held_count st' = cK cfg /\
  (forall s, s < cK cfg -> exists g gd, get_g st' g = Some gd /\ g_hp gd = Some s /\ g_ptr gd <> 0 /\
                                        nth_error (slots (pl st')) s = Some (Obj (g_ptr gd))) /\
  (forall g gd, get_g st' g = Some gd -> g_ptr gd = 0 -> g_hp gd = None) /\
  (forall g, g <> target op -> get_g st' g = get_g st g).
Proof. exact K_protecting_guards. Qed.
Print Assumptions C18_K_protecting_guards.

(** the allocation theorem counted in protecting guards (guards whose pointer is non-null) *)
Theorem C18_static_alloc_succeeds_iff_protecting : forall cfg ops op st0, 1 <= cK cfg -> cDyn cfg = false ->
  let st := snd (run cfg ops) in
  alloc_site st op = Some st0 ->
  (outcome_of cfg st op = Ok <-> protecting_count st0 < cK cfg) /\
  (outcome_of cfg st op = Exhausted <-> protecting_count st0 = cK cfg).
Proof. exact static_alloc_succeeds_iff_protecting. Qed.
Print Assumptions C18_static_alloc_succeeds_iff_protecting.

(** * hazard_eras (Model/HeSlotsDefs.v, Proof/HeSlots.v): same pool, reference counted shared slots *)

Theorem C18_he_slots_invariant : forall cfg ops, 1 <= cK cfg ->
  let st := snd (h_run cfg ops) in
  let fl := free_list (hpool st) in
  let H := held (h_guards st) in
  let n := length (slots (hpool st)) in
  chain (slots (hpool st)) (hint (hpool st)) fl /\ NoDup fl /\
  (forall i, In i fl <-> i < n /\ ~ In i H) /\
  (forall i, In i H -> i < n) /\
  (forall s, In s H -> exists e, nth_error (slots (hpool st)) s = Some (Obj (e, count_occ Nat.eq_dec H s))) /\
  Permutation (fl ++ used (h_guards st)) (seq 0 n) /\ length (used (h_guards st)) + length fl = n /\
  (forall l, h_last st = Some l -> In l H) /\
  n = cK cfg + list_sum (blocks (hpool st)) /\ (cDyn cfg = false -> n = cK cfg) /\
  length (h_guards st) = cG cfg.
Proof. exact he_slots_invariant. Qed.
Print Assumptions C18_he_slots_invariant.

Theorem C18_he_never_invalid : forall cfg ops, 1 <= cK cfg -> Forall (valid_hop cfg) ops ->
  Forall (fun o => ho_res o <> Invalid) (fst (h_run cfg ops)).
Proof. exact he_never_invalid. Qed.
Print Assumptions C18_he_never_invalid.

Theorem C18_he_exhausted_preserves_existing : forall cfg ops op, 1 <= cK cfg ->
  let st := snd (h_run cfg ops) in
  h_outcome_of cfg st op = Exhausted ->
  let st' := h_state_after cfg st op in
  cDyn cfg = false /\ free_list (hpool st') = [] /\ length (used (h_guards st')) = cK cfg /\
  (forall g', h_target op <> g' -> h_get st' g' = h_get st g') /\
  (exists gd', h_get st' (h_target op) = Some gd' /\ g_hp gd' = None) /\
  HFacts cfg st'.
Proof. exact he_exhausted_preserves_existing. Qed.
Print Assumptions C18_he_exhausted_preserves_existing.

Theorem C18_he_dynamic_never_exhausted : forall cfg ops, 1 <= cK cfg -> cDyn cfg = true ->
  Forall (fun o => ho_res o <> Exhausted) (fst (h_run cfg ops)).
Proof. exact he_dynamic_never_exhausted. Qed.
Print Assumptions C18_he_dynamic_never_exhausted.

Theorem C18_he_no_leak : forall cfg ops, 1 <= cK cfg ->
  let st := snd (h_run cfg ops) in
  let st' := snd (h_run_from cfg st (h_reset_ops cfg)) in
  held (h_guards st') = [] /\ h_last st' = None /\
  length (slots (hpool st')) = length (slots (hpool st)) /\
  Permutation (free_list (hpool st')) (seq 0 (length (slots (hpool st')))) /\
  length (free_list (hpool st')) = length (slots (hpool st)).
Proof. exact he_no_leak. Qed.
Print Assumptions C18_he_no_leak.

(** a guard has an era iff its pointer is non-null *)
Theorem C18_he_pointer_iff_era : forall cfg ops g gd, h_get (snd (h_run cfg ops)) g = Some gd ->
  (g_hp gd = None <-> g_ptr gd = 0).
Proof. exact he_pointer_iff_era. Qed.
Print Assumptions C18_he_pointer_iff_era.

(** (repaired code) after Exhausted the asking guard has no era and a null pointer, all other guards are unchanged *)
Theorem C18_he_exhausted_leaves_guard_empty : forall cfg ops op, 1 <= cK cfg ->
  let st := snd (h_run cfg ops) in
  h_outcome_of cfg st op = Exhausted ->
  let st' := h_state_after cfg st op in
  (exists gd', h_get st' (h_target op) = Some gd' /\ g_hp gd' = None /\ g_ptr gd' = 0) /\
  (forall g', h_target op <> g' -> h_get st' g' = h_get st g').
Proof. exact he_exhausted_leaves_guard_empty. Qed.
Print Assumptions C18_he_exhausted_leaves_guard_empty.

(** (repaired code) an operation throws only if every one of the K slots is referenced by a guard with a non-null pointer *)
Theorem C18_he_K_protecting_guards : forall cfg ops op, 1 <= cK cfg ->
  let st := snd (h_run cfg ops) in
  h_outcome_of cfg st op = Exhausted ->
  let st' := h_state_after cfg st op in
  cDyn cfg = false /\ length (used (h_guards st')) = cK cfg /\
  (forall s, s < cK cfg -> exists g gd, h_get st' g = Some gd /\ g_hp gd = Some s /\ g_ptr gd <> 0) /\
  (forall g gd, h_get st' g = Some gd -> g_ptr gd = 0 -> g_hp gd = None).
Proof. exact he_K_protecting_guards. Qed.
Print Assumptions C18_he_K_protecting_guards.
