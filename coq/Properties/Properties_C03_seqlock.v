(** C03 / C14 - seqlock over the weak-memory machine: property theorems (statements only).
    Model: WM/SeqlockWM.v (the program of xenium/seqlock.hpp, slots = 1, over the view machine WM/View.v;
    one machine step per atomic access / fence of load, store, update; memory orders from the record [orders]).
    Proofs: WM/SeqlockWMProof.v.
    [xenium_orders] holds the memory orders written in seqlock.hpp (line numbers in WM/SeqlockWM.v). *)
From Coq Require Import NArith List Bool.
From XV Require Import WM.View WM.SeqlockWM WM.SeqlockWMProof.
Import ListNotations.

(** the orders of seqlock.hpp satisfy the conditions of the theorem *)
Theorem C03_seqlock_xenium_orders_ok : orders_ok xenium_orders = true.
Proof. exact xenium_orders_ok. Qed.
Print Assumptions C03_seqlock_xenium_orders_ok.

(** MAIN RESULT.  For every number W >= 1 of data words, all memory orders [o] with [orders_ok o], any
    number of threads calling load / store / update any number of times, and every state [s] the program
    reaches on the weak machine (stores may stay invisible to other threads, accesses are reordered as far
    as their orders allow):
    - a completed load() ([RdDone c0 mq buf]: called with view [c0] of _seq, validated against message [mq],
      words read from the messages [buf]) returns W words that all carry ONE generation [h] (never torn),
      exactly the value of that generation; generation [h] had been completely stored by the end of the
      load ([2 * h] = timestamp of its unlocking store), and it is not older than any store whose unlock
      was in the reader's view when load() was called ([c0 <= 2 * h]);
    - update() applies its functor to the words of the latest generation;
    - the writers are mutually exclusive. *)
Theorem C03_seqlock_weak_atomic : forall W o, 1 <= W -> orders_ok o = true ->
  forall s, preach W o s ->
  (forall t c0 mq buf, pcs s t = RdDone c0 mq buf ->
     exists h,
       length buf = W /\
       (forall j m, nth_error buf j = Some m ->
          g_gen s j (m_ts m) = h /\ m_val m = nth j (nth h (g_hist s) []) 0%N) /\
       ret_gens s buf = repeat h W /\
       ret_vals buf = nth h (g_hist s) [] /\
       h < length (g_hist s) /\ h <= g_cur s /\
       2 * h <= last_ts (memory (ms s) seqL) /\
       m_ts mq = 2 * h /\
       c0 <= 2 * h) /\
  (forall t f q buf, pcs s t = WrRFence f q buf ->
     1 <= g_cur s /\ length (g_hist s) = g_cur s /\ length buf = W /\
     (forall j m, nth_error buf j = Some m -> g_gen s j (m_ts m) = g_cur s - 1) /\
     ret_gens s buf = repeat (g_cur s - 1) W /\
     ret_vals buf = nth (g_cur s - 1) (g_hist s) []) /\
  (forall t1 t2, locked (pcs s t1) = true -> locked (pcs s t2) = true -> t1 = t2).
Proof. exact seqlock_weak_atomic. Qed.
Print Assumptions C03_seqlock_weak_atomic.

(** the load part needs only [orders_ok_load] (the locking CAS may be relaxed) *)
Theorem C03_seqlock_weak_load_atomic : forall W, 1 <= W -> forall o s t c0 mq buf,
  orders_ok_load o = true -> preach W o s -> pcs s t = RdDone c0 mq buf ->
  exists h,
    length buf = W /\
    (forall j m, nth_error buf j = Some m ->
       g_gen s j (m_ts m) = h /\ m_val m = nth j (nth h (g_hist s) []) 0%N) /\
    ret_gens s buf = repeat h W /\
    ret_vals buf = nth h (g_hist s) [] /\
    h < length (g_hist s) /\ h <= g_cur s /\
    2 * h <= last_ts (memory (ms s) seqL) /\
    m_ts mq = 2 * h /\
    c0 <= 2 * h.
Proof. exact seqlock_load_atomic_wm. Qed.
Print Assumptions C03_seqlock_weak_load_atomic.

(** a thread's own completed store is in its view of _seq: later loads of the thread start with
    [c0 >= 2 * g] and so return a generation [h >= g] *)
Theorem C03_seqlock_own_store_in_view : forall W, 1 <= W -> forall o s t q lab s',
  orders_ok_load o = true -> preach W o s -> pcs s t = WrUnlock q -> pstep W o s t lab s' ->
  cur (threads (ms s') t) seqL = 2 * g_cur s /\ g_cur s' = g_cur s.
Proof. exact seqlock_own_store_in_view_wm. Qed.
Print Assumptions C03_seqlock_own_store_in_view.

(** every program execution is a valid trace of the machine of WM/View.v *)
Theorem C03_seqlock_traces_valid : forall W o s tr s',
  ptrace W o s tr s' -> valid (ms s) tr /\ ms s' = run (ms s) tr.
Proof. exact ptrace_valid. Qed.
Print Assumptions C03_seqlock_traces_valid.

(** NON-VACUITY: with xenium's orders (2 words) thread 1 stores {7,8}, thread 3 updates to {8,9},
    thread 2's load completes and returns generation 2 = {8,9}; the listed summary is the machine trace
    ([SLoad t loc ord value timestamp], locations: 0 = _seq, 1,2 = data words) *)
Example C03_seqlock_load_completes :
  exec_load_returns 2 xenium_orders
    [ SLoad 1 0 Rlx 0 0; SRmw 1 0 Acq 1; SFence 1 Rel; SStore 1 1 Rlx 7; SStore 1 2 Rlx 8;
      SStore 1 0 Rel 2;
      SLoad 3 0 Rlx 2 2; SRmw 3 0 Acq 3; SLoad 3 1 Rlx 7 1; SLoad 3 2 Rlx 8 1; SFence 3 Acq;
      SFence 3 Rel; SStore 3 1 Rlx 8; SStore 3 2 Rlx 9; SStore 3 0 Rel 4;
      SLoad 2 0 Acq 4 4; SLoad 2 1 Rlx 8 2; SLoad 2 2 Rlx 9 2; SFence 2 Acq; SLoad 2 0 Acq 4 4 ]
    2 [2; 2] [8; 9]%N.
Proof. exact xenium_load_completes. Qed.
Print Assumptions C03_seqlock_load_completes.

(** REFUTATION for weaker orders: xenium's orders with the acquire fence of read_data (seqlock.hpp:243,
    comment (6)) relaxed violate [orders_ok_load], and the machine has an execution in which load() returns
    word 0 of generation 0 with word 1 of generation 1: {0,8}, which was never stored *)
Theorem C03_seqlock_weak_orders_not_ok : orders_ok_load weak_orders = false.
Proof. exact weak_orders_not_ok. Qed.
Print Assumptions C03_seqlock_weak_orders_not_ok.

Theorem C03_seqlock_weak_orders_torn :
  exec_load_returns 2 weak_orders
    [ SLoad 1 0 Rlx 0 0; SLoad 2 0 Acq 0 0; SRmw 1 0 Acq 1; SFence 1 Rel;
      SStore 1 1 Rlx 7; SStore 1 2 Rlx 8;
      SLoad 2 1 Rlx 0 0; SLoad 2 2 Rlx 8 1; SFence 2 Rlx; SLoad 2 0 Acq 0 0 ]
    2 [0; 1] [0; 8]%N.
Proof. exact weak_orders_torn. Qed.
Print Assumptions C03_seqlock_weak_orders_torn.

Theorem C03_seqlock_weak_orders_refute_atomicity :
  ~ (forall s t c0 mq buf, preach 2 weak_orders s -> pcs s t = RdDone c0 mq buf ->
       exists h, ret_gens s buf = repeat h 2).
Proof. exact weak_orders_refute_atomicity. Qed.
Print Assumptions C03_seqlock_weak_orders_refute_atomicity.

(** every other conjunct of [orders_ok] is necessary, too: one site relaxed -> a torn load
    ((1) 158, (2) 167, (3) 179, (7) 260, (5) 230) resp. an update that reads a stale value ((4) 218) *)
Theorem C03_seqlock_weak_load_seq1_torn :
  exec_load_returns 2 (set_load_seq1 Rlx xenium_orders)
    [ SLoad 1 0 Rlx 0 0; SRmw 1 0 Acq 1; SFence 1 Rel; SStore 1 1 Rlx 7; SStore 1 2 Rlx 8;
      SStore 1 0 Rel 2;
      SLoad 2 0 Rlx 2 2; SLoad 2 1 Rlx 0 0; SLoad 2 2 Rlx 8 1; SFence 2 Acq; SLoad 2 0 Acq 2 2 ]
    2 [0; 1] [0; 8]%N.
Proof. exact weak_load_seq1_torn. Qed.
Print Assumptions C03_seqlock_weak_load_seq1_torn.

Theorem C03_seqlock_weak_load_seq_spin_torn :
  exec_load_returns 2 (set_load_seq_spin Rlx xenium_orders)
    [ SLoad 1 0 Rlx 0 0; SRmw 1 0 Acq 1; SLoad 2 0 Acq 1 1;
      SFence 1 Rel; SStore 1 1 Rlx 7; SStore 1 2 Rlx 8; SStore 1 0 Rel 2;
      SLoad 2 0 Rlx 2 2; SLoad 2 1 Rlx 0 0; SLoad 2 2 Rlx 8 1; SFence 2 Acq; SLoad 2 0 Acq 2 2 ]
    2 [0; 1] [0; 8]%N.
Proof. exact weak_load_seq_spin_torn. Qed.
Print Assumptions C03_seqlock_weak_load_seq_spin_torn.

Theorem C03_seqlock_weak_load_seq2_torn :
  exec_load_returns 2 (set_load_seq2 Rlx xenium_orders)
    [ SLoad 2 0 Acq 0 0; SLoad 2 1 Rlx 0 0; SLoad 2 2 Rlx 0 0; SFence 2 Acq;
      SLoad 1 0 Rlx 0 0; SRmw 1 0 Acq 1; SFence 1 Rel; SStore 1 1 Rlx 7; SStore 1 2 Rlx 8;
      SStore 1 0 Rel 2;
      SLoad 2 0 Rlx 2 2;
      SLoad 2 1 Rlx 0 0; SLoad 2 2 Rlx 8 1; SFence 2 Acq; SLoad 2 0 Rlx 2 2 ]
    2 [0; 1] [0; 8]%N.
Proof. exact weak_load_seq2_torn. Qed.
Print Assumptions C03_seqlock_weak_load_seq2_torn.

Theorem C03_seqlock_weak_fence_before_data_torn :
  exec_load_returns 2 (set_fence_before_data Rlx xenium_orders)
    [ SLoad 1 0 Rlx 0 0; SLoad 2 0 Acq 0 0; SRmw 1 0 Acq 1; SFence 1 Rlx;
      SStore 1 1 Rlx 7; SStore 1 2 Rlx 8;
      SLoad 2 1 Rlx 0 0; SLoad 2 2 Rlx 8 1; SFence 2 Acq; SLoad 2 0 Acq 0 0 ]
    2 [0; 1] [0; 8]%N.
Proof. exact weak_fence_before_data_torn. Qed.
Print Assumptions C03_seqlock_weak_fence_before_data_torn.

Theorem C03_seqlock_weak_unlock_store_torn :
  exec_load_returns 2 (set_unlock_store Rlx xenium_orders)
    [ SLoad 1 0 Rlx 0 0; SRmw 1 0 Acq 1; SFence 1 Rel; SStore 1 1 Rlx 7; SStore 1 2 Rlx 8;
      SStore 1 0 Rlx 2;
      SLoad 2 0 Acq 2 2; SLoad 2 1 Rlx 0 0; SLoad 2 2 Rlx 8 1; SFence 2 Acq; SLoad 2 0 Acq 2 2 ]
    2 [0; 1] [0; 8]%N.
Proof. exact weak_unlock_store_torn. Qed.
Print Assumptions C03_seqlock_weak_unlock_store_torn.

Theorem C03_seqlock_weak_lock_cas_stale_update :
  exec_update_reads 2 (set_lock_cas Rlx xenium_orders)
    [ SLoad 1 0 Rlx 0 0; SRmw 1 0 Rlx 1; SFence 1 Rel; SStore 1 1 Rlx 7; SStore 1 2 Rlx 8;
      SStore 1 0 Rel 2;
      SLoad 2 0 Rlx 2 2; SRmw 2 0 Rlx 3; SLoad 2 1 Rlx 0 0; SLoad 2 2 Rlx 0 0 ]
    2 2 [0; 0].
Proof. exact weak_lock_cas_stale_update. Qed.
Print Assumptions C03_seqlock_weak_lock_cas_stale_update.

(** the model's [is_write_pending] is the function generated from seqlock.hpp:142 *)
Theorem C03_seqlock_is_write_pending_generated : forall q,
  SeqlockWM.is_write_pending q = XV.gen.SeqlockGen.is_write_pending q.
Proof. exact is_write_pending_generated. Qed.
Print Assumptions C03_seqlock_is_write_pending_generated.
