(** C11 - vyukov_hash_map: property theorems (statements only). *)
From Coq Require Import NArith List Bool.
Local Open Scope N_scope.
(** placeholder obligation (replaced by the bucket_state algebra generated from impl/vyukov_hash_map.hpp) *)
Theorem C11_version_inc_positive : forall lock_bit : N, 0 < 2 ^ lock_bit.
Proof. intros. apply N.neq_0_lt_0. apply N.pow_nonzero. discriminate. Qed.
Print Assumptions C11_version_inc_positive.
