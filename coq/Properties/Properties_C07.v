(** C07 - queues own their elements: property theorems (statements only; proofs in Proof/RamalheteNode.v).
    [node_dtor] is GENERATED from ramalhete_queue<...>::node::~node() on every run: each
    traits::delete_value(entries[k]) is rendered as incrementing the counter [mem 0 k].
    S = [C_step_size E] is the generated step_size (1 if 11 divides entries_per_node = E, else 11);
    pop_idx = S*p and push_idx = S*q are ticket counters; push_idx may exceed max_idx = S*E because
    every push that finds the node full still increments it. *)
From Coq Require Import NArith List.
From XV Require Import Base.Word gen.RamalheteNodeGen Proof.RamalheteNode.
Import ListNotations.
Local Open Scope N_scope.

(** MAIN RESULT (all node sizes E, all ticket values, i.e. every node state concurrent pushes and
    pops can leave behind): the destructor destroys exactly the entries of the tickets in
    [p, min(q,E)), each exactly once, at slot (S*ticket) mod E; tickets below p (already handed to a
    consumer) and tickets >= E (beyond max_idx) are never touched *)
Theorem C07_ramalhete_node_dtor : forall E fuel p q mem,
  1 <= E -> C_step_size E * E < 2 ^ 32 -> (N.to_nat E < fuel)%nat ->
  node_dtor E fuel (C_step_size E * p) (C_step_size E * q) mem
  = Some (fold_left (fun m j => mset m 0 ((C_step_size E * j) mod E)
                                 (wadd 64 (mget m 0 ((C_step_size E * j) mod E)) 1))
                    (tickets p (N.min q E)) mem).
Proof. exact node_dtor_spec. Qed.
Print Assumptions C07_ramalhete_node_dtor.

(** within one node, distinct tickets use distinct entries, for every node size (the step is 1 when
    11 divides E, otherwise 11 is coprime to E) *)
Theorem C07_ramalhete_slots_distinct : forall E j1 j2,
  0 < E -> C_step_size E * E < 2 ^ 32 -> j1 < E -> j2 < E ->
  (C_step_size E * j1) mod E = (C_step_size E * j2) mod E -> j1 = j2.
Proof. exact slots_distinct. Qed.
Print Assumptions C07_ramalhete_slots_distinct.

(** per slot (no coprimality hypothesis is needed any more, see C07_ramalhete_slots_distinct):
    consumed / never used entries keep their count, live ones are destroyed exactly once *)
Theorem C07_ramalhete_node_dtor_slots : forall E fuel p q mem,
  1 <= E -> C_step_size E * E < 2 ^ 32 -> (N.to_nat E < fuel)%nat ->
  exists mem', node_dtor E fuel (C_step_size E * p) (C_step_size E * q) mem = Some mem' /\
    (forall j, j < E -> j < p \/ N.min q E <= j ->
       mget mem' 0 ((C_step_size E * j) mod E) = mget mem 0 ((C_step_size E * j) mod E)) /\
    (forall j, p <= j < N.min q E ->
       mget mem' 0 ((C_step_size E * j) mod E) = wadd 64 (mget mem 0 ((C_step_size E * j) mod E)) 1) /\
    (forall j, p <= j < N.min q E -> mget mem 0 ((C_step_size E * j) mod E) < 2 ^ 64 - 1 ->
       mget mem' 0 ((C_step_size E * j) mod E) = mget mem 0 ((C_step_size E * j) mod E) + 1) /\
    (forall b k, b <> 0 -> mget mem' b k = mget mem b k).
Proof. exact node_dtor_consumed_untouched. Qed.
Print Assumptions C07_ramalhete_node_dtor_slots.

(** the witness of the repaired defect: E = 2 (step 11), three pushes (q = 3 > E), one pop (p = 1):
    only entry 1 (ticket 1) is destroyed; entry 0 (ticket 0, consumed) is not *)
Example C07_witness : match node_dtor 2 10 11 33 (fun _ _ => 0) with
  | Some m => mget m 0 0 = 0 /\ mget m 0 1 = 1 | None => False end.
Proof. vm_compute. split; reflexivity. Qed.

(** a node whose size is a multiple of 11 (E = 22, step 1): all 22 tickets pushed, none popped:
    every one of the 22 entries is destroyed exactly once *)
Example C07_witness_22 : match node_dtor 22 30 0 22 (fun _ _ => 0) with
  | Some m => forallb (fun k => mget m 0 k =? 1) (map N.of_nat (seq 0 22)) = true | None => False end.
Proof. vm_compute. reflexivity. Qed.
