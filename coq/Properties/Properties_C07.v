(** C07 - queues own their elements: property theorems (statements only; proofs in Proof/RamalheteNode.v).
    [node_dtor] is GENERATED from ramalhete_queue<...>::node::~node() on every run: each
    traits::delete_value(entries[k]) is rendered as incrementing the counter [mem 0 k].
    pop_idx = 11*p and push_idx = 11*q are ticket counters (step_size 11); push_idx may exceed
    max_idx = 11*E because every push that finds the node full still increments it. *)
From Coq Require Import NArith List.
From XV Require Import Base.Word gen.RamalheteNodeGen Proof.RamalheteNode.
Import ListNotations.
Local Open Scope N_scope.

(** MAIN RESULT (all node sizes E, all ticket values, i.e. every node state concurrent pushes and
    pops can leave behind): the destructor destroys exactly the entries of the tickets in
    [p, min(q,E)), each exactly once, at slot (11*ticket) mod E; tickets below p (already handed to a
    consumer) and tickets >= E (beyond max_idx) are never touched *)
Theorem C07_ramalhete_node_dtor : forall E fuel p q mem,
  1 <= E -> 11 * E < 2 ^ 31 -> 11 * q < 2 ^ 32 -> (N.to_nat E < fuel)%nat ->
  node_dtor E fuel (11 * p) (11 * q) mem
  = Some (fold_left (fun m j => mset m 0 ((11 * j) mod E) (wadd 64 (mget m 0 ((11 * j) mod E)) 1))
                    (tickets p (N.min q E)) mem).
Proof. exact node_dtor_spec. Qed.
Print Assumptions C07_ramalhete_node_dtor.

(** per slot, when 11 and E are coprime (distinct tickets use distinct slots): consumed / never used
    entries keep their count, live ones are destroyed exactly once *)
Theorem C07_ramalhete_node_dtor_slots : forall E fuel p q mem,
  1 <= E -> 11 * E < 2 ^ 31 -> 11 * q < 2 ^ 32 -> (N.to_nat E < fuel)%nat ->
  N.gcd 11 E = 1 ->
  exists mem', node_dtor E fuel (11 * p) (11 * q) mem = Some mem' /\
    (forall j, j < E -> j < p \/ N.min q E <= j ->
       mget mem' 0 ((11 * j) mod E) = mget mem 0 ((11 * j) mod E)) /\
    (forall j, p <= j < N.min q E ->
       mget mem' 0 ((11 * j) mod E) = wadd 64 (mget mem 0 ((11 * j) mod E)) 1) /\
    (forall j, p <= j < N.min q E -> mget mem 0 ((11 * j) mod E) < 2 ^ 64 - 1 ->
       mget mem' 0 ((11 * j) mod E) = mget mem 0 ((11 * j) mod E) + 1) /\
    (forall b k, b <> 0 -> mget mem' b k = mget mem b k).
Proof. exact node_dtor_consumed_untouched. Qed.
Print Assumptions C07_ramalhete_node_dtor_slots.

(** the witness of the repaired defect: E = 2, three pushes (q = 3 > E), one pop (p = 1):
    only entry 1 (ticket 1) is destroyed; entry 0 (ticket 0, consumed) is not *)
Example C07_witness : match node_dtor 2 10 11 33 (fun _ _ => 0) with
  | Some m => mget m 0 0 = 0 /\ mget m 0 1 = 1 | None => False end.
Proof. vm_compute. split; reflexivity. Qed.
