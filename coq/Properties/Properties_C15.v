(** C15 - marked_ptr / concurrent_ptr / guard_ptr algebra: property theorems (proofs in Proof/MarkedPtr.v).
    [make_ptr], [mark], [get] and the constants are GENERATED from xenium/marked_ptr.hpp (generic in
    MarkBits and MaxUpperMarkBits), [rot_left]/[rot_right] from utils::rotate<C> and its <0> specialisation. *)
From Coq Require Import NArith List.
From XV Require Import Base.Word Base.Rotate gen.MarkedPtrGen Proof.MarkedPtr.
Local Open Scope N_scope.

(** for ALL mark widths 1..32, ALL upper/lower splits, ALL marks and ALL canonical pointers *)
Theorem C15_get_make : forall MB MU p m,
  1 <= MB <= 32 -> p < 2 ^ 64 -> m < 2 ^ 64 -> N.land p (C_pointer_mask MB MU) = p ->
  get MB MU (make_ptr MB MU p m) = p.
Proof. exact marked_get_make. Qed.
Print Assumptions C15_get_make.

Theorem C15_mark_make : forall MB MU p m,
  1 <= MB <= 32 -> p < 2 ^ 64 -> m < 2 ^ 64 -> N.land p (C_pointer_mask MB MU) = p ->
  mark MB MU (make_ptr MB MU p m) = m mod 2 ^ MB.
Proof. exact marked_mark_make. Qed.
Print Assumptions C15_mark_make.

(** equality of representations is equality of (pointer, trimmed mark) *)
Theorem C15_eq_iff : forall MB MU p1 m1 p2 m2,
  1 <= MB <= 32 ->
  p1 < 2 ^ 64 -> m1 < 2 ^ 64 -> N.land p1 (C_pointer_mask MB MU) = p1 ->
  p2 < 2 ^ 64 -> m2 < 2 ^ 64 -> N.land p2 (C_pointer_mask MB MU) = p2 ->
  (make_ptr MB MU p1 m1 = make_ptr MB MU p2 m2 <-> p1 = p2 /\ m1 mod 2 ^ MB = m2 mod 2 ^ MB).
Proof. exact marked_eq_iff. Qed.
Print Assumptions C15_eq_iff.

Theorem C15_make_fits : forall MB MU p m,
  1 <= MB <= 32 -> p < 2 ^ 64 -> m < 2 ^ 64 -> N.land p (C_pointer_mask MB MU) = p ->
  make_ptr MB MU p m < 2 ^ 64.
Proof. exact marked_make_lt. Qed.
Print Assumptions C15_make_fits.

(** bit layout of the packed word *)
Theorem C15_layout : forall MB MU p m n,
  1 <= MB <= 32 -> p < 2 ^ 64 -> m < 2 ^ 64 -> N.land p (C_pointer_mask MB MU) = p -> n < 64 ->
  N.testbit (make_ptr MB MU p m) n =
  let L := C_lower_mark_bits MB MU in
  if n <? L then N.testbit m (n + (MB - L))
  else if 64 - (MB - L) <=? n then N.testbit m (n - (64 - (MB - L)))
  else N.testbit p n.
Proof. exact marked_layout. Qed.
Print Assumptions C15_layout.

Theorem C15_rotate_roundtrip : forall c v, c <= 32 -> v < 2 ^ 64 -> rot_right c (rot_left c v) = v.
Proof. exact rot_left_right. Qed.
Print Assumptions C15_rotate_roundtrip.

(** non-vacuity: an 18-bit mark with 16 upper and 2 lower bits on a canonical pointer *)
Example C15_nonvacuous : get 18 16 (make_ptr 18 16 0x7f00deadbee0 0x2ABCD) = 0x7f00deadbee0 /\ mark 18 16 (make_ptr 18 16 0x7f00deadbee0 0x2ABCD) = 0x2ABCD /\ N.land 0x7f00deadbee0 (C_pointer_mask 18 16) = 0x7f00deadbee0.
Proof. vm_compute. repeat split; reflexivity. Qed.
