(** C09 - Harris-Michael containers: property theorems (statements only). *)
From Coq Require Import NArith List Bool.
Local Open Scope N_scope.

(** the ordering predicate of harris_michael_hash_map with memoize_hash ("hash >= h and key >= k" is
    used as the stop condition of find): it is monotone in both components.  (Placeholder obligation;
    the sequential/structural theorems of the list model are added by Proof/HmList.v.) *)
Theorem C09_stop_monotone : forall h k h1 k1 h2 k2 : N,
  (h <=? h1) && (k <=? k1) = true -> h1 <= h2 -> k1 <= k2 -> (h <=? h2) && (k <=? k2) = true.
Proof.
  intros h k h1 k1 h2 k2 H H1 H2. apply andb_true_iff in H. destruct H as [A B].
  apply N.leb_le in A. apply N.leb_le in B. apply andb_true_iff. split; apply N.leb_le; eapply N.le_trans; eauto.
Qed.
Print Assumptions C09_stop_monotone.
