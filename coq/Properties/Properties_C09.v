(** C09 - iterators of harris_michael_list_based_set: property theorems (statements only; the proofs live in
    Proof/HmlItInv.v).  [HmlItDefs] extends the step-level model [HmlDefs] of
    harris_michael_list_based_set<long, reclaimer<GC>> by the iterator operations begin(), find(key) returning
    an iterator, operator++, operator*, reset(), erase(iterator); each thread owns one iterator variable
    ([it_sv t] = info.save / info.prev, [it_cur t] = info.cur; 0 = null, i.e. end()).  The model is tied to the
    code by trace correspondence (driver instance [hmlit], harness h_hm with -DXV_RECL=GC, operations
    ins / del / has / itb / itf k / itn / itd / ite / itr).  [reach xinit xstep st] quantifies over any number of
    threads, any program, any schedule.  insert / erase(key) / contains are executed by [HmlDefs.step] itself on
    the component [base st].

    Ghosts of the traversal of thread t (from the first step of itb / itf until end() or itr):
    [g_yield st t] the positions the iterator took (key, node, [y_wit]: the key was in [g_abs] at an instant of
    the traversal not later than the yield, [y_reach]: the node was reachable from head at the yield, [y_lin]: length of [g_lin] at the yield); [g_lo] how the traversal
    was started; [g_trav] not abandoned; [g_start] the abstract set at its first step; [g_always] the keys that
    were in the abstract set in every state of the traversal.

    Three statements of the informal property are FALSE for the real algorithm (refuted on concrete
    schedules that the implementation reproduces): see the [_refuted] theorems; the true versions are proved. *)
From Coq Require Import NArith List Sorted.
From XV Require Import Base.Word Conc.Lts Conc.Ev Conc.Solo Model.HmlDefs Proof.HmlInv Model.HmlItDefs Proof.HmlItInv.
Import ListNotations.
Local Open Scope N_scope.

(** the structural / abstraction invariant of Proof/HmlInv.v holds for the list in the extended system *)
Theorem C09_hmlit_base_inv : forall st, reach xinit xstep st -> Inv (base st).
Proof. exact hmlit_base_inv. Qed.
Print Assumptions C09_hmlit_base_inv.

Theorem C09_hmlit_structure : forall st, reach xinit xstep st ->
  head (base st) = hd 0 (chain (base st)) /\
  linksto (nnext (base st)) (chain (base st)) 0 /\
  StronglySorted (fun x y => nkey (base st) x < nkey (base st) y) (chain (base st)) /\
  NoDup (chain (base st)) /\
  (forall x, In x (chain (base st)) -> x <> 0 /\ x < nalloc (base st)) /\
  nmark (base st) 0 = false.
Proof. exact hmlit_structure. Qed.
Print Assumptions C09_hmlit_structure.

Theorem C09_hmlit_retired : forall st, reach xinit xstep st ->
  NoDup (g_retired (base st)) /\
  (forall x, In x (g_retired (base st)) ->
     ~ In x (chain (base st)) /\ nmark (base st) x = true /\ x <> 0 /\ x < nalloc (base st)) /\
  (forall x, nmark (base st) x = true ->
     (In x (chain (base st)) \/ In x (g_retired (base st))) /\ In x (del_nodes (g_lin (base st)))) /\
  (forall x, In x (chain (base st)) \/ In x (g_retired (base st)) -> In x (ins_nodes (g_lin (base st)))) /\
  g_abs (base st) = apply_lin (g_lin (base st)) /\
  (forall k, In k (g_abs (base st)) <-> In k (abs_keys (base st))).
Proof. exact hmlit_retired. Qed.
Print Assumptions C09_hmlit_retired.

(** SAFETY: every node an iterator / an iterator operation in progress refers to was allocated and is null /
    the head sentinel, reachable, or retired (retired nodes are never freed: GC reclaimer instance = what C01
    guarantees for guarded nodes) *)
Theorem C09_it_node_safe : forall st, reach xinit xstep st -> forall t x, In x (iheld st t) ->
  x < nalloc (base st) /\ (x = 0 \/ In x (chain (base st)) \/ In x (g_retired (base st))).
Proof. exact it_node_safe. Qed.
Print Assumptions C09_it_node_safe.

(** every atomic access of an iterator operation goes to such a block *)
Theorem C09_it_access_safe : forall s t s' es,
  reach xinit xstep s -> xstep s (XStep t) = Some (s', es) -> ith s t <> IIdle ->
  forall e x, In e es -> ev_block e = Some x ->
    x < nalloc (base s) /\ (x = 0 \/ In x (chain (base s)) \/ In x (g_retired (base s))).
Proof. exact it_access_safe. Qed.
Print Assumptions C09_it_access_safe.

(** the iterator variable: key order w.r.t. its predecessor, and it is the last recorded position *)
Theorem C09_it_position : forall st, reach xinit xstep st -> forall t, it_cur st t <> 0 ->
  (it_sv st t <> 0 -> nkey (base st) (it_sv st t) < nkey (base st) (it_cur st t)) /\
  exists ys0 y, g_yield st t = ys0 ++ [y] /\ y_node y = it_cur st t /\ y_key y = nkey (base st) (it_cur st t).
Proof. exact it_position. Qed.
Print Assumptions C09_it_position.

(** operator*: one step without atomic access, returns the key of the node the iterator stands on *)
Theorem C09_it_deref : forall s t, ith s t = IBegin OItD ->
  exists s', xstep s (XStep t) = Some (s', [EStart t 6 []; ERet t (6 :: pos_res (base s) (it_cur s t))]) /\
             ith s' t = IIdle /\ it_cur s' t = it_cur s t /\ base s' = base s.
Proof. exact it_deref. Qed.
Print Assumptions C09_it_deref.

(** YIELDS: every recorded position is a node linked by a recorded insert before the yield, and it was reachable
    from head at the instant the iterator moved onto it ([y_reach]); its witness flag is true, or the node had
    been erased (recorded erase) before the iterator moved onto it (and was not unlinked yet) *)
Theorem C09_it_yield_sound : forall st, reach xinit xstep st -> forall t y, In y (g_yield st t) ->
  nkey (base st) (y_node y) = y_key y /\ y_node y <> 0 /\
  (In (y_node y) (chain (base st)) \/ In (y_node y) (g_retired (base st))) /\
  (y_lin y <= length (g_lin (base st)))%nat /\
  (exists j t', (j < y_lin y)%nat /\ nth_error (g_lin (base st)) j = Some (LIns t' (y_key y) (y_node y))) /\
  y_reach y = true /\
  (y_wit y = true \/
   exists j t', (j < y_lin y)%nat /\ nth_error (g_lin (base st)) j = Some (LDel t' (y_key y) (y_node y))).
Proof. exact it_yield_sound. Qed.
Print Assumptions C09_it_yield_sound.

(** ... and a true witness flag means: the key was in the abstract set in some state of the traversal
    ([trav_path u s0 l s]: u took the first step of itb / itf from s0, l = the later states up to s) *)
Theorem C09_it_yield_was_member : forall u s0 l s, reach xinit xstep s0 -> trav_path u s0 l s ->
  forall y, In y (g_yield s u) -> y_wit y = true ->
  exists s1, In s1 (s0 :: l) /\ In (y_key y) (g_abs (base s1)).
Proof. exact it_yield_was_member. Qed.
Print Assumptions C09_it_yield_was_member.

(** REFUTED: "every element it yields was in the container at some instant during the traversal" *)
Theorem C09_it_yield_was_member_refuted :
  ~ (forall u s0 l s, reach xinit xstep s0 -> trav_path u s0 l s ->
       forall y, In y (g_yield s u) -> exists s1, In s1 (s0 :: l) /\ In (y_key y) (g_abs (base s1))).
Proof. exact it_yield_was_member_refuted. Qed.
Print Assumptions C09_it_yield_was_member_refuted.

(** NO DUPLICATES (true version): keys never decrease; an equal key is yielded again only by a different node
    linked by an insert linearized after the first yield and before the second *)
Theorem C09_it_no_duplicate : forall st, reach xinit xstep st -> forall t i j y1 y2, (i < j)%nat ->
  nth_error (g_yield st t) i = Some y1 -> nth_error (g_yield st t) j = Some y2 ->
  y_key y1 < y_key y2 \/
  (y_key y1 = y_key y2 /\ y_node y1 <> y_node y2 /\
   exists m t', nth_error (g_lin (base st)) m = Some (LIns t' (y_key y2) (y_node y2)) /\
                (y_lin y1 <= m < y_lin y2)%nat).
Proof. exact it_no_duplicate. Qed.
Print Assumptions C09_it_no_duplicate.

(** REFUTED: "within one traversal the yielded keys are strictly increasing" *)
Theorem C09_it_no_duplicate_strict_refuted :
  ~ (forall st t i j y1 y2, reach xinit xstep st -> (i < j)%nat ->
       nth_error (g_yield st t) i = Some y1 -> nth_error (g_yield st t) j = Some y2 -> y_key y1 < y_key y2).
Proof. exact it_no_duplicate_strict_refuted. Qed.
Print Assumptions C09_it_no_duplicate_strict_refuted.

(** COMPLETENESS (state level): all keys of [g_always] (greater than k for a traversal started by find k) up to
    the key of the current position - all of them when the iterator has reached end() - have been yielded *)
Theorem C09_it_complete_upto : forall st, reach xinit xstep st -> forall t k,
  g_trav st t = true -> in_start (ith st t) = false ->
  In k (g_always st t) -> above (g_lo st t) k -> (it_cur st t = 0 \/ k <= nkey (base st) (it_cur st t)) ->
  In k (map y_key (g_yield st t)).
Proof. exact it_complete_upto. Qed.
Print Assumptions C09_it_complete_upto.

(** meaning of the ghosts: [g_always] = the keys that were in the abstract set in every state of the traversal *)
Theorem C09_it_always_exact : forall u s0 l s, trav_path u s0 l s ->
  g_start s u = g_abs (base s0) /\
  forall k, In k (g_always s u) <-> (forall s1, In s1 (s0 :: l) -> In k (g_abs (base s1))).
Proof. exact it_always_exact. Qed.
Print Assumptions C09_it_always_exact.

(** COMPLETENESS (trace level) *)
Theorem C09_it_complete : forall u s0 l s, reach xinit xstep s0 -> trav_path u s0 l s ->
  g_trav s u = true -> in_start (ith s u) = false -> it_cur s u = 0 ->
  forall k, (forall s1, In s1 (s0 :: l) -> In k (g_abs (base s1))) ->
    (forall k0, ith s0 u = IBegin (OItF k0) -> k0 < k) ->
    In k (map y_key (g_yield s u)).
Proof. exact it_complete_trace. Qed.
Print Assumptions C09_it_complete.

(** ERASE(ITERATOR) IS EXACT: the only step of the call that changes marks / the abstract set is the successful
    mark CAS on exactly the node the iterator stands on, which removes exactly its key *)
Theorem C09_it_erase_exact : forall s t s' es, reach xinit xstep s -> xstep s (XStep t) = Some (s', es) ->
  in_erase (ith s t) = true ->
  let b := base s in let b' := base s' in let cur := it_cur s t in
  (ith s' t <> IIdle -> it_cur s' t = cur /\ it_sv s' t = it_sv s t /\ in_erase (ith s' t) = true) /\
  (((forall x, nmark b' x = nmark b x) /\ g_abs b' = g_abs b /\ g_lin b' = g_lin b) \/
   (exists nx, ith s t = X2 nx /\ ith s' t = X3 nx /\ cur <> 0 /\ nmark b cur = false /\ In cur (chain b) /\
      In (nkey b cur) (g_abs b) /\ g_abs b' = remk (nkey b cur) (g_abs b) /\
      g_lin b' = g_lin b ++ [LDel t (nkey b cur) cur] /\
      (forall x, nmark b' x = if x =? cur then true else nmark b x))).
Proof. exact it_erase_exact. Qed.
Print Assumptions C09_it_erase_exact.

(** return of erase(iterator): the node is marked, unlinked and retired; the returned iterator is end(), or stands
    on a greater key, or on a different node with the same key (re-inserted, see C09_it_no_duplicate) *)
Theorem C09_it_erase_return : forall s t s' es, reach xinit xstep s -> xstep s (XStep t) = Some (s', es) ->
  in_erase (ith s t) = true -> ith s' t = IIdle -> it_cur s t <> 0 ->
  let o := it_cur s t in let n := it_cur s' t in let b' := base s' in
  nmark b' o = true /\ ~ In o (chain b') /\ In o (g_retired b') /\
  In (ERet t (7 :: 1 :: nkey (base s) o :: pos_res (base s) n)) es /\
  (n = 0 \/ nkey b' o < nkey b' n \/ (nkey b' o = nkey b' n /\ n <> o)).
Proof. exact it_erase_return. Qed.
Print Assumptions C09_it_erase_return.

(** REFUTED: "erase(iterator) returns an iterator to a node whose key is greater" *)
Theorem C09_it_erase_greater_refuted :
  ~ (forall s t s' es, reach xinit xstep s -> xstep s (XStep t) = Some (s', es) ->
       in_erase (ith s t) = true -> ith s' t = IIdle -> it_cur s t <> 0 ->
       it_cur s' t = 0 \/ nkey (base s') (it_cur s t) < nkey (base s') (it_cur s' t)).
Proof. exact it_erase_greater_refuted. Qed.
Print Assumptions C09_it_erase_greater_refuted.

(** C16 for the iterator operations: solo termination with an explicit bound *)
Theorem C16_it_solo : forall s t, reach xinit xstep s -> th (base s) t = Idle ->
  finishes_within xstep XStep xidle t (it_cost s t) s.
Proof. exact it_solo. Qed.
Print Assumptions C16_it_solo.

Theorem C16_it_solo_bound : forall s t, reach xinit xstep s -> th (base s) t = Idle ->
  finishes_within xstep XStep xidle t (4 * length (chain (base s)) + 8) s.
Proof. exact it_solo_bound. Qed.
Print Assumptions C16_it_solo_bound.

Theorem C16_itn_solo_start : forall s t s' es, reach xinit xstep s -> xstep s (XStart t OItN) = Some (s', es) ->
  finishes_within xstep XStep xidle t
    (if it_cur s t =? 0 then 1 else if nmark (base s) (it_cur s t) then 4 * length (chain (base s)) + 5 else 3) s'.
Proof. exact itn_solo_start. Qed.
Print Assumptions C16_itn_solo_start.

(** non-vacuity: a complete traversal with a concurrent erase of the element the iterator stands on, an insert
    right behind it and an erase through the iterator *)
Theorem C09_hmlit_nonvacuous :
  let st := xst ex_trav in
  snd (xrun ex_trav) = 0%nat /\
  chain (base st) = [2; 3] /\ g_abs (base st) = [30; 20] /\ g_retired (base st) = [1; 4] /\
  g_lin (base st) = [LIns 1 10 1; LIns 1 20 2; LIns 1 30 3; LDel 2 10 1; LIns 1 15 4; LDel 3 15 4] /\
  g_yield st 3%nat = [mkY 10 1 true true 3; mkY 15 4 true true 5; mkY 20 2 true true 6; mkY 30 3 true true 6] /\
  it_cur st 3%nat = 0 /\ g_trav st 3%nat = true /\ g_lo st 3%nat = None /\
  g_start st 3%nat = [30; 20; 10] /\ g_always st 3%nat = [30; 20] /\
  rets ex_trav = [ERet 1 [0; 1]; ERet 1 [0; 1]; ERet 1 [0; 1]; ERet 3 [3; 1; 10]; ERet 2 [1; 1]; ERet 1 [0; 1];
                  ERet 3 [5; 1; 15]; ERet 3 [7; 1; 15; 1; 20]; ERet 3 [5; 1; 30]; ERet 3 [5; 0]].
Proof. exact ex_trav_state. Qed.
Print Assumptions C09_hmlit_nonvacuous.
