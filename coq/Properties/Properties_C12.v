(** C12 - chase_work_stealing_deque: property theorems (statements only; proofs live in Proof/). *)
From Coq Require Import NArith.
From XV Require Import Base.Word gen.UtilsGen Proof.UtilsGenOk.
Local Open Scope N_scope.

(** the loop of utils::find_last_bit_set, as generated from the source, computes the bit length *)
Theorem C12_find_last_bit_set_gen : forall v, v < 2 ^ 64 -> find_last_bit_set 65 v = Some (flbs v).
Proof. exact find_last_bit_set_ok. Qed.
Print Assumptions C12_find_last_bit_set_gen.
