(** C12 - chase_work_stealing_deque: property theorems (statements only; proofs live in Proof/).
    [get_entry], [grow], [find_last_bit_set] are GENERATED from the C++ source on every run. *)
From Coq Require Import NArith List.
Import ListNotations.
From Coq Require Import Permutation.
From XV Require Import Base.Word Conc.Lts gen.UtilsGen gen.GrowingArrayGen Model.ChaseDefs Proof.UtilsGenOk Proof.ChaseIndex Proof.ChaseInv.
Local Open Scope N_scope.

(** the loop of utils::find_last_bit_set, as generated from the source, computes the bit length *)
Theorem C12_find_last_bit_set_gen : forall v, v < 2 ^ 64 -> find_last_bit_set 65 v = Some (flbs v).
Proof. exact find_last_bit_set_ok. Qed.
Print Assumptions C12_find_last_bit_set_gen.

(** index -> (bucket, slot) is injective on one capacity window, for every capacity 2^k up to 2^30 *)
Theorem C12_get_entry_inj : forall k cap i1 i2,
  1 <= k <= 30 -> cap = 2 ^ k -> i1 < 2 ^ 64 -> i2 < 2 ^ 64 ->
  get_entry i1 cap = get_entry i2 cap <-> i1 mod cap = i2 mod cap.
Proof. exact get_entry_inj. Qed.
Print Assumptions C12_get_entry_inj.

(** ... and stays inside the allocated buckets *)
Theorem C12_get_entry_bounds : forall k cap idx,
  1 <= k <= 30 -> cap = 2 ^ k -> idx < 2 ^ 64 ->
  fst (get_entry idx cap) <= k /\
  (0 < fst (get_entry idx cap) -> snd (get_entry idx cap) < 2 ^ (fst (get_entry idx cap) - 1)) /\
  (fst (get_entry idx cap) = 0 -> snd (get_entry idx cap) = 0).
Proof. exact get_entry_bounds. Qed.
Print Assumptions C12_get_entry_bounds.

(** grow() at ANY index offset: every live index reads after the growth what it read before *)
Theorem C12_grow_preserves : forall k cap fuel bk mem bottom top mem' bk' cap',
  1 <= k <= 29 -> cap = 2 ^ k -> top <= bottom -> bottom - top <= cap -> bottom < 2 ^ 63 ->
  (N.to_nat cap < fuel)%nat ->
  grow fuel bk cap mem bottom top = Some (mem', bk', cap') ->
  cap' = 2 * cap /\ bk' = wadd 64 bk 1 /\
  forall i, top <= i < bottom ->
    mget mem' (fst (get_entry i cap')) (snd (get_entry i cap')) =
    mget mem (fst (get_entry i cap)) (snd (get_entry i cap)).
Proof. exact grow_preserves. Qed.
Print Assumptions C12_grow_preserves.

Theorem C12_grow_total : forall k cap fuel bk mem bottom top,
  1 <= k <= 29 -> cap = 2 ^ k -> top <= bottom -> bottom - top <= cap -> bottom < 2 ^ 63 ->
  (N.to_nat cap < fuel)%nat -> grow fuel bk cap mem bottom top <> None.
Proof. exact grow_total. Qed.
Print Assumptions C12_grow_total.

(** the copy list used by the step-level model equals the generated big-step [grow] *)
Theorem C12_grow_moves_gen : forall k cap fuel bk mem bottom top mem' bk' cap',
  1 <= k <= 29 -> cap = 2 ^ k -> top <= bottom -> bottom - top <= cap -> bottom < 2 ^ 63 ->
  (N.to_nat cap < fuel)%nat ->
  grow fuel bk cap mem bottom top = Some (mem', bk', cap') ->
  fold_left (fun m (p : (N * N) * (N * N)) =>
               mset m (fst (snd p)) (snd (snd p)) (mget m (fst (fst p)) (snd (fst p))))
            (grow_moves cap bottom top) mem = mem'.
Proof. exact grow_moves_gen_eq. Qed.
Print Assumptions C12_grow_moves_gen.

(** the root of known finding C12-steal-overlaps-grow: old and new capacity share the lower half *)
Theorem C12_lower_half_shared : forall k cap idx,
  1 <= k <= 29 -> cap = 2 ^ k -> idx mod (2 * cap) < cap -> get_entry idx (2 * cap) = get_entry idx cap.
Proof. exact get_entry_lower_half. Qed.
Print Assumptions C12_lower_half_shared.

(** ------------------------------------------------------------------------------------------------
    Concurrent layer (fixed_size_circular_array): one owner, ANY number of thieves, every interleaving.
    [plen st < 2^62]: fewer than 2^62 try_push calls completed (no counter wrap).
    [abs c st]: the values at the live indices [top, logical bottom); equals [live st c] when all threads are idle. *)

(** MAIN RESULT: conservation = exactly-once hand-out.  The multiset of values handed out by
    try_pop/try_steal together with the values still in the deque equals the multiset accepted by try_push *)
Theorem C12_fixed_conservation : forall k c st,
  c = 2 ^ k -> 1 <= k <= 30 ->
  reach (init (Fixed c)) (step (Fixed c)) st -> plen st < 2 ^ 62 ->
  Permutation (g_taken st ++ abs c st) (g_pushed st).
Proof. exact chase_fixed_conservation. Qed.
Print Assumptions C12_fixed_conservation.

Theorem C12_fixed_conservation_quiescent : forall k c st,
  c = 2 ^ k -> 1 <= k <= 30 ->
  reach (init (Fixed c)) (step (Fixed c)) st -> plen st < 2 ^ 62 ->
  (forall t, th st t = Idle) -> Permutation (g_taken st ++ live st c) (g_pushed st).
Proof. exact chase_fixed_conservation_quiescent. Qed.
Print Assumptions C12_fixed_conservation_quiescent.

(** no item is handed out twice, and nothing handed out is still inside *)
Theorem C12_fixed_no_duplicate : forall k c st,
  c = 2 ^ k -> 1 <= k <= 30 ->
  reach (init (Fixed c)) (step (Fixed c)) st -> plen st < 2 ^ 62 ->
  NoDup (g_pushed st) ->
  NoDup (g_taken st) /\ NoDup (abs c st) /\ (forall x, In x (g_taken st) -> ~ In x (abs c st)).
Proof. exact chase_fixed_no_duplicate. Qed.
Print Assumptions C12_fixed_no_duplicate.

(** a thief about to CAS top from t holds exactly the element at index t (if top is still t) *)
Theorem C12_fixed_thief_read : forall k c st th_id t x,
  c = 2 ^ k -> 1 <= k <= 30 ->
  reach (init (Fixed c)) (step (Fixed c)) st -> plen st < 2 ^ 62 ->
  th st th_id = St5 t x ->
  t <= top (sh st) /\
  (top (sh st) = t -> t < lbot (bottom (sh st)) (th st owner) /\ x = mem (sh st) 0 (N.land t (c - 1))).
Proof. exact chase_fixed_thief_read. Qed.
Print Assumptions C12_fixed_thief_read.

(** non-vacuity: a concrete concurrent run reaches a state with a thief at its CAS *)
Example C12_nonvacuous :
  let acts := [Start 1%nat (OPush 7); Step 1%nat; Step 1%nat; Step 1%nat; Step 1%nat; Step 1%nat;
               Start 2%nat OSteal; Step 2%nat; Step 2%nat; Step 2%nat; Step 2%nat] in
  let st := fst (fst (run (step (Fixed 4)) (init (Fixed 4)) acts)) in
  th st 2%nat = St5 0 7 /\ g_pushed st = [7].
Proof. vm_compute. split; reflexivity. Qed.
