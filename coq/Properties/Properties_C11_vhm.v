(** C11 - vyukov_hash_map iterators: theorems about the step-level model of one bucket WITH the iterator operations
    (Model/VhmItDefs.v, tied to the implementation by trace correspondence); proofs in Proof/VhmItBase.v, VhmItMem.v,
    VhmItAbs.v, VhmItInv.v.  The C10 theorems are re-established for this extended model (writers, readers). *)
From Coq Require Import NArith List.
From XV Require Import Base.Word Conc.Lts Conc.Ev gen.BucketStateGen Model.VhmItDefs
  Proof.VhmBase Proof.VhmMem Proof.VhmItBase Proof.VhmItMem Proof.VhmItAbs Proof.VhmItInv.
Import ListNotations.
Local Open Scope N_scope.

(** exclusivity: at most one thread holds the bucket (writers inside the bucket, positioned iterators) *)
Theorem C11_vhm_mutex : forall xoff st t t', reach init (step xoff) st ->
  pc_bst (th st t) <> None -> pc_bst (th st t') <> None -> t = t'.
Proof. exact vhmit_mutex. Qed.
Print Assumptions C11_vhm_mutex.

Theorem C11_vhm_iterator_exclusive : forall xoff st t s idx x p, reach init (step xoff) st -> th st t = ItIdle (It s idx x p) ->
  bst st = bs_locked s /\ bs_is_locked (bst st) = true /\ g_owner st = Some t /\
  forall t', t' <> t -> pc_bst (th st t') = None.
Proof. exact vhmit_iterator_exclusive. Qed.
Print Assumptions C11_vhm_iterator_exclusive.

Theorem C11_vhm_iterator_position : forall xoff st t s idx x p, reach init (step xoff) st -> th st t = ItIdle (It s idx x p) ->
  (x = 0 -> idx < bs_item_count s) /\ (x <> 0 -> In x (g_chain st) /\ link_ok st p x) /\
  bs_item_count s = ic st /\ bs_is_locked s = false /\ bs_delete_marker s = 0.
Proof. exact vhmit_iterator_position. Qed.
Print Assumptions C11_vhm_iterator_position.

(** erase(iterator) removes exactly the current pair *)
Theorem C11_vhm_erase_removes_current : forall xoff st t st' es, reach init (step xoff) st -> step xoff st (Step t) = Some (st', es) ->
  match th st t with
  | EX2 (It s idx x p) w v nx =>
    xkey st x = w /\ xval st x = v /\ VhmDefs.lookup w (g_map st) = Some v /\ g_map st' = VhmDefs.rem w (g_map st)
  | EA1 (It s idx x p) w v _ | EB1 (It s idx x p) w v =>
    akey st idx = w /\ aval st idx = v /\ VhmDefs.lookup w (g_map st) = Some v /\ g_map st' = VhmDefs.rem w (g_map st)
  | EB6 (It s idx x p) w v =>
    idx = bs_item_count s - 1 ->
    akey st idx = w /\ aval st idx = v /\ VhmDefs.lookup w (g_map st) = Some v /\ g_map st' = VhmDefs.rem w (g_map st)
  | _ => True
  end.
Proof. exact vhmit_erase_removes_current. Qed.
Print Assumptions C11_vhm_erase_removes_current.

Theorem C11_vhm_erase_results : forall xoff st, reach init (step xoff) st -> forall h, In h (g_hist st) -> h_op h = OIte ->
  h_res h = [6; 2] \/ exists v, h_wit h = Some (Some v).
Proof. exact vhmit_erase_results. Qed.
Print Assumptions C11_vhm_erase_results.

(** after the iterators are reset every bucket lock is released *)
Theorem C11_vhm_locks_released : forall xoff st, reach init (step xoff) st -> (forall t, th st t = Idle) ->
  bs_is_locked (bst st) = false /\ g_owner st = None /\ forall b, obst st b = 0.
Proof. exact vhmit_locks_released. Qed.
Print Assumptions C11_vhm_locks_released.

Theorem C11_vhm_reset_unlocks : forall xoff st t i st' es, reach init (step xoff) st -> th st t = R1 i -> step xoff st (Step t) = Some (st', es) ->
  bs_is_locked (bst st') = false /\ g_owner st' = None /\ th st' t = Idle.
Proof. exact vhmit_reset_unlocks. Qed.
Print Assumptions C11_vhm_reset_unlocks.

(** the version rule also covers the removals performed through an iterator *)
Theorem C11_vhm_version_rule : forall xoff st a st' es, reach init (step xoff) st -> step xoff st a = Some (st', es) ->
  g_nver st' = g_nver st + 1 \/ (g_nver st' = g_nver st /\ Env st st').
Proof. exact vhm_version_rule. Qed.
Print Assumptions C11_vhm_version_rule.

(** concurrent lock-free readers are never misled, also by erase(iterator): the reader theorem for the model with
    iterators *)
Theorem C11_vhm_try_get_value_linearizable : forall xoff s h a t k s' es r,
  exec xoff s h -> step xoff s a = Some (s', es) -> a = Step t -> get_key (th s t) = Some k -> In (ERet t r) es -> Bnd s' ->
  exists m, (m <= length h)%nat /\
    (forall m', (m' <= m)%nat -> get_key (th (nth m' (s :: h) s) t) = Some k) /\
    ((exists v, r = [4; 1; v] /\ VhmDefs.lookup k (g_map (nth m (s :: h) s)) = Some v) \/
     (r = [4; 0] /\ VhmDefs.lookup k (g_map (nth m (s :: h) s)) = None)).
Proof. exact vhm_try_get_value_linearizable. Qed.
Print Assumptions C11_vhm_try_get_value_linearizable.

(** writers of the extended model *)
Theorem C11_vhm_writers : forall xoff st, reach init (step xoff) st -> forall h, In h (g_hist st) -> hist_ok_w h.
Proof. exact vhm_writers. Qed.
Print Assumptions C11_vhm_writers.

Theorem C11_vhm_structure : forall xoff st, reach init (step xoff) st -> g_owner st = None ->
  bs_is_locked (bst st) = false /\ bs_delete_marker (bst st) = 0 /\
  (forall k v, VhmDefs.lookup k (g_map st) = Some v <-> In (k, v) (pairs st)) /\
  (forall j j', j < ic st -> j' < ic st -> akey st j = akey st j' -> j = j') /\
  (forall x x', In x (g_chain st) -> In x' (g_chain st) -> xkey st x = xkey st x' -> x = x') /\
  (forall j x, j < ic st -> In x (g_chain st) -> akey st j <> xkey st x) /\
  (g_chain st <> [] -> ic st = 3).
Proof. exact vhm_structure. Qed.
Print Assumptions C11_vhm_structure.
