(** C01 / C02 for xenium::reclamation::lock_free_ref_count<> (no padding, no thread-local free list): property theorems
    (statements only; proofs live in Proof/LfrcInv.v and the layers it names).  [LfrcDefs] is the step-level model of
    the reclaimer under the generic protocol-conforming client of harness/h_recl.cpp built with XV_DEFAULT_DELETER (repl
    / clear / read / hold / drop / deref, thread exit), tied to the code by trace correspondence (build/h_lfrc = h_recl.cpp
    with rt::LFRC and the free list head named; also build/h_recl_lfrc).  Node memory is never returned to the allocator,
    so C01 reads: while a guard refers to a node its OBJECT is not destroyed and the node is not handed out again.
    [reach (init nc) (step ns)]: every state reachable with nc cells and ns guard slots per thread, any number of
    threads, any programs, any schedule (sequentially consistent interleavings).
    [g_refs st n]: the counted references on node n ([RCell c]: cell c points to it; [RG t g]: guard g of thread t holds
    it - [GV] validated, [GU] between fetch_add and re-check or being released; g <= ns are the client's guards, ns+1 and
    ns+2 the temporary guards of free_list::pop; [ROwn t]: the reference a new object starts with, held by its creator
    until publication and by the unlinking thread until reclaim's fetch_sub); [holds st r n]: reference r exists;
    [g_ns st n]: the life cycle of n; [g_inc] / [g_nd] / [g_npush] / [g_npop]: constructor runs (incarnation), destructor
    runs, pushes, pops of n; [g_alive]: the current incarnation's object is alive; [g_fl]: the free list; [g_uaf]: a
    dereference hit a destroyed object. *)
From Coq Require Import NArith List.
From XV Require Import Conc.Lts Conc.Ev Model.LfrcDefs Proof.LfrcBase Proof.LfrcRefs Proof.LfrcNodes Proof.LfrcOwn Proof.LfrcFree Proof.LfrcInv.
Import ListNotations.

(** reference-count accounting: ref_count = 2 * (number of references that exist) + claim bit, for every node; the free
    list holds no counted reference; claim bit set iff claimed / on the free list / just popped *)
Theorem C01_lfrc_refcount : forall ns nc st, reach (init nc) (step ns) st -> forall n,
  NoDup (g_refs st n) /\ (forall r, In r (g_refs st n) <-> holds st r n) /\
  rc st n = 2 * length (g_refs st n) + cbit (g_ns st n) /\
  Nat.div2 (rc st n) = length (g_refs st n) /\
  (Nat.odd (rc st n) = true <-> to_free_list (g_ns st n)).
Proof. exact lfrc_refcount. Qed.
Print Assumptions C01_lfrc_refcount.

Theorem C01_lfrc_no_underflow : forall ns nc st, reach (init nc) (step ns) st -> forall t,
  match th st t with
  | D1 _ n _ | D2 _ n _ _ => 2 <= rc st n
  | R2 o => 4 <= rc st o
  | P6 _ _ p => Nat.odd (rc st p) = true /\ 3 <= rc st p
  | _ => True
  end.
Proof. exact lfrc_no_underflow. Qed.
Print Assumptions C01_lfrc_no_underflow.

(** C01, MAIN RESULT: while a validated client guard refers to a node, the node is published (not claimed, not on the
    free list, not handed out again), its object is alive, the claim bit is clear; no dereference hits a destroyed object *)
Theorem C01_lfrc_safe : forall ns nc st, reach (init nc) (step ns) st ->
  (forall t g n, gd (tl st t) g = GV n -> g <= ns ->
     g_ns st n = NPub /\ g_alive st n = true /\ dst st n = false /\ Nat.odd (rc st n) = false /\ 2 <= rc st n /\
     ~ In n (g_fl st) /\ In (RG t g) (g_refs st n)) /\
  g_uaf st = false.
Proof. exact lfrc_safe. Qed.
Print Assumptions C01_lfrc_safe.

Theorem C01_lfrc_cell_safe : forall ns nc st, reach (init nc) (step ns) st -> forall c n, cells st c = Some n ->
  g_ns st n = NPub /\ g_alive st n = true /\ Nat.odd (rc st n) = false /\ ~ In n (g_fl st).
Proof. exact lfrc_cell_safe. Qed.
Print Assumptions C01_lfrc_cell_safe.

(** the guarded incarnation is stable: no step reconstructs or destroys a node that a validated guard refers to *)
Theorem C01_lfrc_guard_stable : forall ns nc st a st' es t g n, reach (init nc) (step ns) st -> step ns st a = Some (st', es) ->
  gd (tl st' t) g = GV n -> g <= ns -> g_inc st' n = g_inc st n /\ g_nd st' n = g_nd st n.
Proof. exact lfrc_guard_stable. Qed.
Print Assumptions C01_lfrc_guard_stable.

(** C02: exactly-once destruction per incarnation, at most one push per incarnation and one pop per push, a named
    thread per transient state, the free list is a duplicate free null-terminated chain *)
Theorem C02_lfrc_exactly_once : forall ns nc st, reach (init nc) (step ns) st ->
  (forall n, g_nd st n + b2n (g_alive st n) = g_inc st n /\
             g_npush st n + live4 (g_ns st n) = g_inc st n /\
             g_npop st n + live4 (g_ns st n) + isfree (g_ns st n) = g_inc st n) /\
  (forall n, g_nd st n <= g_inc st n <= S (g_nd st n) /\ g_npush st n <= g_inc st n /\ g_npop st n <= g_npush st n <= S (g_npop st n)) /\
  (forall n, alive_ok (g_ns st n) (g_alive st n) (dst st n)) /\
  (forall n, ownr_ok st n (g_ns st n)) /\
  NoDup (g_fl st) /\ (forall n, In n (g_fl st) <-> g_ns st n = NFree) /\ fhead st = hd_opt (g_fl st) /\ chain (nxt st) (g_fl st).
Proof. exact lfrc_exactly_once. Qed.
Print Assumptions C02_lfrc_exactly_once.

Theorem C02_lfrc_destroy_event : forall ns nc st a st' es n, reach (init nc) (step ns) st -> step ns st a = Some (st', es) ->
  g_nd st' n <> g_nd st n ->
  exists t, a = Step t /\ g_nd st' n = S (g_nd st n) /\ g_inc st' n = g_inc st n /\
    g_alive st n = true /\ g_alive st' n = false /\
    (forall c, cells st c <> Some n) /\ (forall u g, g <= ns -> gd (tl st u) g <> GV n) /\
    ((exists k, th st t = D4 n k /\ g_ns st n = NClaimed t) \/ (th st t = X1 n /\ g_ns st n = NFresh t)).
Proof. exact lfrc_destroy_event. Qed.
Print Assumptions C02_lfrc_destroy_event.

Theorem C02_lfrc_claim_event : forall ns nc st a st' es n u, reach (init nc) (step ns) st -> step ns st a = Some (st', es) ->
  g_ns st' n = NClaimed u -> g_ns st n <> NClaimed u ->
  a = Step u /\ exists w k, th st u = D2 w n 2 k /\ rc st n = 2 /\ rc st' n = 1 /\ g_refs st n = [who_ref u w] /\ g_refs st' n = [].
Proof. exact lfrc_claim_event. Qed.
Print Assumptions C02_lfrc_claim_event.

Theorem C02_lfrc_push_event : forall ns nc st a st' es n, reach (init nc) (step ns) st -> step ns st a = Some (st', es) ->
  g_npush st' n <> g_npush st n ->
  exists t, a = Step t /\ g_npush st' n = S (g_npush st n) /\ g_ns st n = NClaimed t /\ g_ns st' n = NFree /\
    g_alive st n = false /\ ~ In n (g_fl st) /\ g_fl st' = n :: g_fl st.
Proof. exact lfrc_push_event. Qed.
Print Assumptions C02_lfrc_push_event.

Theorem C02_lfrc_pop_event : forall ns nc st a st' es n, reach (init nc) (step ns) st -> step ns st a = Some (st', es) ->
  g_npop st' n <> g_npop st n ->
  exists t, a = Step t /\ g_npop st' n = S (g_npop st n) /\ g_ns st n = NFree /\ g_ns st' n = NPop t /\
    g_fl st = n :: g_fl st' /\ fhead st' = hd_opt (g_fl st').
Proof. exact lfrc_pop_event. Qed.
Print Assumptions C02_lfrc_pop_event.

(** no ABA on the free list: the popper holds a counted reference on the head it validated, so that node cannot be
    claimed and pushed again, and the next pointer the popper read is still the node's successor when its CAS succeeds *)
Theorem C02_lfrc_pop_no_aba : forall ns nc st t c g p nx, reach (init nc) (step ns) st -> th st t = P5 c g p nx ->
  In (RG t g) (g_refs st p) /\ ~ bad_q (g_ns st p) /\ (g_ns st p = NFree -> nxt st p = nx) /\
  (fhead st = Some p -> exists rest, g_fl st = p :: rest /\ nx = hd_opt rest).
Proof. exact lfrc_pop_no_aba. Qed.
Print Assumptions C02_lfrc_pop_no_aba.

(** C02, liveness half (no flush needed): with all threads between operations every allocated node is on the free list
    or referenced by a cell or a guard; with all guards dropped and all cells cleared every node is on the free list *)
Theorem C02_lfrc_no_lost_node : forall ns nc st, reach (init nc) (step ns) st -> (forall t, th st t = Idle \/ th st t = Done) ->
  forall n, n < nalloc st ->
    (In n (g_fl st) /\ rc st n = 1 /\ g_refs st n = [] /\ g_alive st n = false /\ g_nd st n = g_inc st n /\ g_npush st n = g_inc st n) \/
    ((g_ns st n = NPub /\ g_alive st n = true /\ exists c, cells st c = Some n) \/ (exists t g, gnode (gd (tl st t) g) = Some n)).
Proof. exact lfrc_no_lost_node. Qed.
Print Assumptions C02_lfrc_no_lost_node.

Theorem C02_lfrc_no_leak_at_quiescence : forall ns nc st, reach (init nc) (step ns) st ->
  (forall t, th st t = Idle \/ th st t = Done) -> (forall t g, gd (tl st t) g = GE) -> (forall c, cells st c = None) ->
  forall n, n < nalloc st ->
    In n (g_fl st) /\ rc st n = 1 /\ g_refs st n = [] /\ g_alive st n = false /\ g_nd st n = g_inc st n /\ g_npush st n = g_inc st n.
Proof. exact lfrc_no_leak_at_quiescence. Qed.
Print Assumptions C02_lfrc_no_leak_at_quiescence.
