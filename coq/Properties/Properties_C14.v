(** C14 - seqlock: property theorems (statements only; proofs live in Proof/).
    [C_words] and [is_write_pending] are GENERATED from xenium/seqlock.hpp on every run;
    [SeqlockDefs] is the step-level model tied to the code by trace correspondence. *)
From Coq Require Import NArith List.
From XV Require Import Base.Word Conc.Lts Conc.Ev gen.SeqlockGen Model.SeqlockDefs Proof.SeqlockWords Proof.SeqlockInv.
Import ListNotations.
Local Open Scope N_scope.

(** every byte of T is copied: the word count covers sizeof(T) (and wastes less than one word) *)
Theorem C14_words_cover : forall sz, 0 < sz -> sz < 2 ^ 63 -> sz <= 8 * C_words sz /\ 8 * C_words sz < sz + 8.
Proof. exact words_cover. Qed.
Print Assumptions C14_words_cover.

Theorem C14_odd_is_write_pending : forall q, odd q = is_write_pending q.
Proof. exact odd_is_write_pending. Qed.
Print Assumptions C14_odd_is_write_pending.

(** [Bnd st]: fewer than 2^62 values have been published (no counter wrap).
    [cur st]: index of the latest published version.  [normw words v]: v cut / zero padded to [words] words. *)

(** writers are mutually exclusive and the sequence word is twice the version (+1 while locked) *)
Theorem C14_version_and_mutex : forall slots words func v0,
  1 <= slots -> slots < 2 ^ 30 -> (1 <= words)%nat ->
  forall st, reach (init v0) (step slots words func) st -> Bnd st ->
  (((exists t, is_locked (th st t) = true) /\ seq st = 2 * cur st + 1) \/
   ((forall t, is_locked (th st t) = false) /\ seq st = 2 * cur st)) /\
  (forall t1 t2, is_locked (th st t1) = true -> is_locked (th st t2) = true -> t1 = t2) /\
  (forall t q, lockq (th st t) = Some q -> q = 2 * cur st) /\
  (forall t o q, th st t = AqCas o q -> q mod 2 = 0).
Proof. exact seqlock_version. Qed.
Print Assumptions C14_version_and_mutex.

(** MAIN RESULT: for any number of readers and writers, any slot count, any word count, any update
    functor and any schedule, a load returns exactly the complete value of ONE published version
    (never a torn mixture), and that version is not newer than the current one *)
Theorem C14_load_atomic : forall slots words func v0,
  1 <= slots -> slots < 2 ^ 30 -> (1 <= words)%nat ->
  forall st t q buf st' es r,
  reach (init v0) (step slots words func) st -> Bnd st ->
  th st t = Ld3 q buf ->
  step slots words func st (Step t) = Some (st', es) ->
  In (ERet t r) es ->
  q mod 2 = 0 /\ q / 2 <= cur st /\ r = normw words (nth (N.to_nat (q / 2)) (g_hist st) []).
Proof. exact seqlock_load_atomic. Qed.
Print Assumptions C14_load_atomic.

(** the version a load returns was the current one when the load (re)started its copy *)
Theorem C14_load_version : forall slots words func v0,
  1 <= slots -> slots < 2 ^ 30 -> (1 <= words)%nat ->
  forall st a st' es t q,
  reach (init v0) (step slots words func) st -> Bnd st ->
  step slots words func st a = Some (st', es) -> rd_q (th st' t) = Some q ->
  rd_q (th st t) = Some q \/
  (a = Step t /\ q / 2 = cur st /\ g_hist st' = g_hist st /\ exists idx, th st' t = LdW q idx 0 []).
Proof. exact seqlock_load_version. Qed.
Print Assumptions C14_load_version.

(** no lost update: the functor of update() is applied to the latest published value, under the lock *)
Theorem C14_update_atomic : forall slots words func v0,
  1 <= slots -> slots < 2 ^ 30 -> (1 <= words)%nat ->
  forall st t q idx buf d,
  reach (init v0) (step slots words func) st -> Bnd st ->
  th st t = UpF q idx buf d ->
  buf = normw words (nth (length (g_hist st) - 1) (g_hist st) []).
Proof. exact seqlock_update_atomic. Qed.
Print Assumptions C14_update_atomic.

(** slot contents: each of the last [slots] versions is stored completely in its slot unless the lock
    holder is overwriting exactly that slot *)
Theorem C14_slot_content : forall slots words func v0,
  1 <= slots -> slots < 2 ^ 30 -> (1 <= words)%nat ->
  forall st k,
  reach (init v0) (step slots words func) st -> Bnd st ->
  k <= cur st -> cur st < k + slots ->
  (cur st + 1 = k + slots -> forall t, wr words (th st t) = 0%nat) ->
  forall i, (i < words)%nat -> data st (k mod slots) i = nth i (nth (N.to_nat k) (g_hist st) []) 0.
Proof. exact seqlock_slot_content. Qed.
Print Assumptions C14_slot_content.

(** non-vacuity: a concrete run (2 slots, 2 words) reaches a state in which a reader is at its final
    sequence check with a complete copy of version 1 *)
Example C14_nonvacuous :
  let func := fun (d : N) (b : list N) => map (fun x => x + d) b in
  let acts := [Start 1%nat (OStore 7 [7; 8]); Step 1%nat; Step 1%nat; Step 1%nat; Step 1%nat; Step 1%nat; Step 1%nat; Step 1%nat;
               Start 2%nat OLoad; Step 2%nat; Step 2%nat; Step 2%nat; Step 2%nat; Step 2%nat] in
  let st := fst (fst (run (step 2 2%nat func) (init [1; 2]) acts)) in
  th st 2%nat = Ld3 2 [7; 8] /\ g_hist st = [[1; 2]; [7; 8]].
Proof. vm_compute. split; reflexivity. Qed.
