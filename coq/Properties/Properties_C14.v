(** C14 - seqlock: property theorems (statements only; proofs live in Proof/).
    [C_words] and [is_write_pending] are GENERATED from xenium/seqlock.hpp on every run. *)
From Coq Require Import NArith List.
From XV Require Import Base.Word gen.SeqlockGen Model.SeqlockDefs Proof.SeqlockWords.
Local Open Scope N_scope.

(** every byte of T is copied: the word count covers sizeof(T) (and wastes less than one word) *)
Theorem C14_words_cover : forall sz, 0 < sz -> sz < 2 ^ 63 -> sz <= 8 * C_words sz /\ 8 * C_words sz < sz + 8.
Proof. exact words_cover. Qed.
Print Assumptions C14_words_cover.

Theorem C14_odd_is_write_pending : forall q, odd q = is_write_pending q.
Proof. exact odd_is_write_pending. Qed.
Print Assumptions C14_odd_is_write_pending.
