(** C16 - solo termination with explicit bounds from every reachable state, for the further step-level models of this
    development (each tied to the code by trace correspondence in the check of its own property).  Statements only: every
    theorem is closed by [exact] of the lemma proved next to its model; the same statements appear in the property files of
    the models (C04_ram, C05_nikb, C06_kfb, C06_kfq, C09, C17) and are collected here because C16 is where they are claimed. *)
From Coq Require Import NArith List Bool Permutation Sorted Arith.
From XV Require Import Base.Word Conc.Lts Conc.Ev Conc.Solo.
From XV Require gen.RamalheteNodeGen Proof.RamalheteNode Model.RamDefs Proof.RamBase Proof.RamTickets Proof.RamInv Proof.RamCons Proof.RamSolo.
From XV Require gen.ScqGen Model.NikbDefs Proof.NikbArith Proof.NikbBase Proof.NikbWf Proof.NikbOwn Proof.NikbVal Proof.NikbSafe Proof.NikbCons Proof.NikbSolo.
From XV Require Model.KfbDefs gen.KirschIdxGen Proof.KfbArith Proof.KfbWf Proof.KfbOwn Proof.KfbRing Proof.KfbRegion Proof.KfbCons Proof.KfbCall Proof.KfbInv Proof.KfbSolo.
From XV Require Model.KfqDefs Proof.KfqWf Proof.KfqOwn Proof.KfqRegion Proof.KfqSeg Proof.KfqCons Proof.KfqCall Proof.KfqSeq Proof.KfqSolo.
From XV Require Model.HmlDefs Proof.HmlInv Model.HmlItDefs Proof.HmlItInv.
From XV Require Model.TblDefs Proof.TblInv.
Import ListNotations.

(** ramalhete_queue: push within (E+R+14)*(E+3), pop within (E+R+14)*((E+1)*(nodes from head on)+2) own steps *)
Module Ram.
Import gen.RamalheteNodeGen Proof.RamalheteNode Model.RamDefs Proof.RamBase Proof.RamTickets Proof.RamInv Proof.RamCons Proof.RamSolo.
Local Open Scope N_scope.
Theorem C16_ram_solo_push :
  forall E R : N, 1 <= E -> C_step_size E * E < 2 ^ 32 -> forall (t : nat) (s : state),
    reach init (step E R) s -> g_ovf s = false -> is_push (th s t) = true ->
    headroom E s (push_bound E R) -> finishes_within (step E R) Step idle t (push_bound E R) s.
Proof. exact ram_solo_push. Qed.
Print Assumptions C16_ram_solo_push.
Theorem C16_ram_solo_pop :
  forall E R : N, 1 <= E -> C_step_size E * E < 2 ^ 32 -> forall (t : nat) (s : state),
    reach init (step E R) s -> g_ovf s = false -> is_push (th s t) = false ->
    headroom E s (pop_bound E R s) -> finishes_within (step E R) Step idle t (pop_bound E R s) s.
Proof. exact ram_solo_pop. Qed.
Print Assumptions C16_ram_solo_pop.
End Ram.

(** nikolaev_bounded_queue: try_push / try_pop within (2R+14)*3*cap + 10*(gaps + cap) + 18 own steps *)
Module Nikb.
Import gen.ScqGen Model.NikbDefs Proof.NikbArith Proof.NikbBase Proof.NikbWf Proof.NikbOwn Proof.NikbVal Proof.NikbSafe Proof.NikbCons Proof.NikbSolo.
Local Open Scope N_scope.
Theorem C16_nikb_solo : forall k R, k <= 40 -> forall u s, reach (init (2 ^ k)) (step (2 ^ k) R) s -> g_ovf s = false ->
  room k s (nikb_bound k R s) -> finishes_within (step (2 ^ k) R) Step idle u (nikb_bound k R s) s.
Proof. exact nikb_solo_bound_thm. Qed.
Print Assumptions C16_nikb_solo.
Theorem C16_nikb_solo_bound_value : forall k R, k <= 40 -> forall s,
  nikb_bound k R s = ((2 * N.to_nat R + 14) * (3 * N.to_nat (2 ^ k)) + 10 * (gap s RA + gap s RF + N.to_nat (2 ^ k)) + 18)%nat.
Proof. exact nikb_bound_value. Qed.
Print Assumptions C16_nikb_solo_bound_value.
End Nikb.

(** kirsch_bounded_kfifo_queue: try_push / try_pop within (2k+12)*(segs+2) own steps for every sequence of random start offsets *)
Module Kfb.
Import Model.KfbDefs gen.KirschIdxGen Proof.KfbArith Proof.KfbWf Proof.KfbOwn Proof.KfbRing Proof.KfbRegion Proof.KfbCons Proof.KfbCall Proof.KfbInv Proof.KfbSolo.
Local Open Scope N_scope.
Theorem C16_kfb_solo : forall k segs, 1 <= k -> 1 <= segs -> forall t s r, reach init (step k segs) s ->
  finishes_within (step k segs) (fun u => Step u r) idle t (kfb_bound k segs) s.
Proof. exact kfb_solo. Qed.
Print Assumptions C16_kfb_solo.
Theorem C16_kfb_solo_bound_value : forall k segs, kfb_bound k segs = ((2 * N.to_nat k + 12) * (N.to_nat segs + 2))%nat.
Proof. exact kfb_bound_value. Qed.
Print Assumptions C16_kfb_solo_bound_value.
End Kfb.

(** kirsch_kfifo_queue: a pop running alone returns within (tail segment - head segment + 1)*(k+12) own steps with the exact verdict *)
Module Kfq.
Import Model.KfqDefs Proof.KfqWf Proof.KfqOwn Proof.KfqRegion Proof.KfqSeg Proof.KfqCons Proof.KfqCall Proof.KfqSeq Proof.KfqSolo.
Local Open Scope N_scope.
Theorem C16_kfq_sequential_pop : forall k, 1 <= k -> forall u s0 (f : state -> N),
  reach init (step k) s0 -> th s0 u = Begin OPop -> (forall t, t <> u -> th s0 t = Idle) ->
  exists n s s' es res, (n < kfq_pop_bound k s0)%nat /\ solof k u f s0 n s /\ step k s (Step u (f s)) = Some (s', es) /\
    th s' u = Idle /\ In (ERet u res) es /\ (res = [2] <-> empty_at s0).
Proof. exact kfq_sequential_pop. Qed.
Print Assumptions C16_kfq_sequential_pop.
End Kfq.

(** harris_michael_list_based_set iterators: every iterator operation within 4*|chain|+8 own steps *)
Module HmlIt.
Import Model.HmlDefs Proof.HmlInv Model.HmlItDefs Proof.HmlItInv.
Local Open Scope N_scope.
Theorem C16_hmlit_solo_bound : forall s t, reach xinit xstep s -> th (base s) t = Idle ->
  finishes_within xstep XStep xidle t (4 * length (chain (base s)) + 8) s.
Proof. exact it_solo_bound. Qed.
Print Assumptions C16_hmlit_solo_bound.
End HmlIt.

(** thread_block_list (the registration every reclaimer shares): acquire within 2*records+5 own steps *)
Module Tbl.
Import Model.TblDefs Proof.TblInv.
Theorem C16_tbl_acquire_solo : forall st t, reach init step st ->
  finishes_within step Step idle t (2 * nent st + 5) st.
Proof. intros st t H. exact (proj1 (tbl_acquire_solo_terminates st t H)). Qed.
Print Assumptions C16_tbl_acquire_solo.
End Tbl.
