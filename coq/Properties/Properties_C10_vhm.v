(** C10 - vyukov_hash_map is a linearizable map, including the lock-free try_get_value: theorems about the
    step-level model of one bucket (Model/VhmDefs.v, tied to the implementation by trace correspondence);
    proofs in Proof/VhmBase.v, VhmMem.v, VhmAbs.v, VhmInv.v. *)
From Coq Require Import NArith List.
From XV Require Import Base.Word Conc.Lts Conc.Ev gen.BucketStateGen Model.VhmDefs
  Proof.VhmBase Proof.VhmMem Proof.VhmAbs Proof.VhmInv.
Import ListNotations.
Local Open Scope N_scope.

(** the bucket lock: at most one holder, lock bit = "somebody is between acquire-CAS and unlocking store",
    the version field counts the version increments (mod 2^27) *)
Theorem C10_vhm_lock : forall xoff st, reach init (step xoff) st ->
  (bs_is_locked (bst st) = true <-> exists t, pc_bst (th st t) <> None) /\
  (forall t t', pc_bst (th st t) <> None -> pc_bst (th st t') <> None -> t = t') /\
  bs_version (bst st) = g_nver st mod 2 ^ 27.
Proof. exact vhm_lock. Qed.
Print Assumptions C10_vhm_lock.

(** unlocked bucket: [g_map] = exactly the pairs in slots [0, item_count) and in the extension chain, all keys
    pairwise distinct; extension items only when the array is full *)
Theorem C10_vhm_structure : forall xoff st, reach init (step xoff) st -> g_owner st = None ->
  bs_is_locked (bst st) = false /\ bs_delete_marker (bst st) = 0 /\
  (forall k v, lookup k (g_map st) = Some v <-> In (k, v) (pairs st)) /\
  (forall j j', j < ic st -> j' < ic st -> akey st j = akey st j' -> j = j') /\
  (forall x x', In x (g_chain st) -> In x' (g_chain st) -> xkey st x = xkey st x' -> x = x') /\
  (forall j x, j < ic st -> In x (g_chain st) -> akey st j <> xkey st x) /\
  (g_chain st <> [] -> ic st = 3).
Proof. exact vhm_structure. Qed.
Print Assumptions C10_vhm_structure.

(** chain and free list: duplicate-free (acyclic) linked lists, disjoint from each other and from the items
    threads own *)
Theorem C10_vhm_lists : forall xoff st, reach init (step xoff) st ->
  bhead st = hd 0 (g_chain st) /\ linksto (xnext st) (g_chain st) 0 /\ NoDup (g_chain st) /\
  xhead st = hd 0 (g_free st) /\ linksto (xnext st) (g_free st) 0 /\ NoDup (g_free st) /\
  (forall x, In x (g_chain st) -> In x (g_free st) -> False) /\
  (forall x, In x (g_chain st) \/ In x (g_free st) -> 1 <= x <= 10) /\
  (forall t x, pc_own (th st t) = Some x -> ~ In x (g_chain st) /\ ~ In x (g_free st)).
Proof. exact vhm_lists. Qed.
Print Assumptions C10_vhm_lists.

(** the version rule: a step that does not increment the version satisfies [Env] (see Proof/VhmInv.v) *)
Theorem C10_vhm_version_rule : forall xoff st a st' es, reach init (step xoff) st -> step xoff st a = Some (st', es) ->
  g_nver st' = g_nver st + 1 \/ (g_nver st' = g_nver st /\ Env st st').
Proof. exact vhm_version_rule. Qed.
Print Assumptions C10_vhm_version_rule.

(** writers: [g_map] changes exactly at the linearization points, which record the previous association of the
    key in [g_lp]; results agree with it *)
Theorem C10_vhm_lp_step : forall xoff st a st' es, step xoff st a = Some (st', es) ->
  g_map st' = g_map st \/
  exists t k, a = Step t /\ g_lp st' t = Some (lookup k (g_map st)) /\
    ((exists v, g_map st' = (k, v) :: g_map st) \/ g_map st' = rem k (g_map st)).
Proof. exact vhm_lp_step. Qed.
Print Assumptions C10_vhm_lp_step.

Theorem C10_vhm_writers : forall xoff st, reach init (step xoff) st -> forall h, In h (g_hist st) -> hist_ok_w h.
Proof. exact vhm_writers. Qed.
Print Assumptions C10_vhm_writers.

(** readers, in terms of the recorded observations *)
Theorem C10_vhm_readers : forall xoff st, reach init (step xoff) st -> Bnd st ->
  forall h k, In h (g_hist st) -> h_op h = OGet k ->
  (exists v, h_res h = [4; 1; v] /\ In (Some v) (h_obs h)) \/ (h_res h = [4; 0] /\ In None (h_obs h)).
Proof. exact vhm_readers. Qed.
Print Assumptions C10_vhm_readers.

(** readers, over executions: the main theorem *)
Theorem C10_vhm_try_get_value_linearizable : forall xoff s h a t k s' es r,
  exec xoff s h -> step xoff s a = Some (s', es) -> a = Step t -> get_key (th s t) = Some k -> In (ERet t r) es -> Bnd s' ->
  exists m, (m <= length h)%nat /\
    (forall m', (m' <= m)%nat -> get_key (th (nth m' (s :: h) s) t) = Some k) /\
    ((exists v, r = [4; 1; v] /\ lookup k (g_map (nth m (s :: h) s)) = Some v) \/
     (r = [4; 0] /\ lookup k (g_map (nth m (s :: h) s)) = None)).
Proof. exact vhm_try_get_value_linearizable. Qed.
Print Assumptions C10_vhm_try_get_value_linearizable.

Theorem C10_vhm_never_absent_if_present : forall xoff s h a t k s' es,
  exec xoff s h -> step xoff s a = Some (s', es) -> a = Step t -> get_key (th s t) = Some k -> Bnd s' ->
  (forall m, (m <= length h)%nat -> get_key (th (nth m (s :: h) s) t) = Some k ->
             lookup k (g_map (nth m (s :: h) s)) <> None) ->
  ~ In (ERet t [4; 0]) es.
Proof. exact vhm_never_absent_if_present. Qed.
Print Assumptions C10_vhm_never_absent_if_present.

Theorem C10_vhm_value_was_associated : forall xoff s h a t k s' es v,
  exec xoff s h -> step xoff s a = Some (s', es) -> a = Step t -> get_key (th s t) = Some k -> Bnd s' ->
  In (ERet t [4; 1; v]) es ->
  exists m, (m <= length h)%nat /\ get_key (th (nth m (s :: h) s) t) = Some k /\
            lookup k (g_map (nth m (s :: h) s)) = Some v.
Proof. exact vhm_value_was_associated. Qed.
Print Assumptions C10_vhm_value_was_associated.
