(** C09 - iterators of harris_michael_hash_map stay valid and weakly consistent under updates, ACROSS THE BUCKET
    TRANSITIONS: property theorems (statements only; the proofs live in Proof/HmmItInv.v, on top of Proof/HmmInv.v).
    [HmmDefs] is the step-level model of harris_michael_hash_map<long, long, reclaimer<GC>, buckets<nb>,
    memoize_hash<memo>, hash<hf>>; each thread owns one iterator variable ([it_b] = bucket, [it_sv] = info.save /
    info.prev, [it_cur] = info.cur; 0 = null, i.e. end()); operations itb / itf k / itn / itd / ite / itr next to
    the map operations (driver instance [hmm], harness h_hmm / h_hm with -DXV_RECL=GC).
    [reach (init nb) (step nb memo lex hf) st] quantifies over any number of threads, any program, any schedule.

    Ghosts of the traversal of thread t (from the first step of itb / itf): [g_yield] the positions the iterator took
    (bucket, key, node, [y_wit]: the key was in [g_abs] at the instant of the yield, [y_reach]: the node was reachable
    from its bucket head then, [y_lin]: length of [g_lin] then); [g_lo] how it was started; [g_trav] not abandoned;
    [g_always] the keys that were in the abstract map in every state of the traversal.

    [ord memo lex] = the ordering predicate of a bucket is total: [lex = true] (greater_or_equal of the code,
    lexicographic on (hash, key)) or [memo = false].  For the former predicate [hash >= h && key >= k] completeness
    is FALSE ([C09_hmm_complete_refuted_conj]); safety and soundness of the yields hold for all predicates. *)
From Coq Require Import NArith List Sorted.
From XV Require Import Base.Word Conc.Lts Conc.Ev Model.HmmDefs Proof.HmmInv Proof.HmmItInv.
Import ListNotations.
Local Open Scope N_scope.

(** the invariant of the iterators *)
Theorem C09_hmm_inv : forall nb memo lex hf st, reach (init nb) (step nb memo lex hf) st -> Y nb memo lex hf st.
Proof. exact Y_reach. Qed.
Print Assumptions C09_hmm_inv.

(** SAFETY: every node an operation in progress or an iterator variable refers to (info.save, info.cur, start_guard,
    next, the new node) was allocated and is null / a bucket head, reachable from a bucket head, retired (never freed
    while referenced: GC reclaimer instance = what C01 guarantees for guarded nodes), or the thread's own unlinked node *)
Theorem C09_hmm_node_safe : forall nb memo lex hf st, reach (init nb) (step nb memo lex hf) st ->
  forall t x, In x (held (th st t) (its st t)) ->
    x < nalloc (sm st) /\
    (x = 0 \/ (exists b, In x (chain (sm st) b)) \/ In x (g_retired (sm st)) \/ fresh_of (th st t) = Some x).
Proof. exact it_node_safe. Qed.
Print Assumptions C09_hmm_node_safe.

(** the iterator variable stands on the last recorded position, in the bucket its key selects *)
Theorem C09_hmm_position : forall nb memo lex hf st, reach (init nb) (step nb memo lex hf) st ->
  forall t, it_cur (its st t) <> 0 ->
    bucket_of nb hf (nkey (sm st) (it_cur (its st t))) = it_b (its st t) /\
    exists ys0 y, g_yield (its st t) = ys0 ++ [y] /\ y_node y = it_cur (its st t) /\ y_b y = it_b (its st t) /\
                  y_key y = nkey (sm st) (it_cur (its st t)).
Proof. exact it_position. Qed.
Print Assumptions C09_hmm_position.

(** YIELDS: every yielded position is a node of the bucket its key selects, linked by a recorded insertion before the
    yield ("yielded keys were inserted"), reachable from its bucket head at the instant of the yield; its witness is
    true (key in the map at that instant) or the node had already been erased by a recorded erase (still linked) *)
Theorem C09_hmm_yield_sound : forall nb memo lex hf st, reach (init nb) (step nb memo lex hf) st ->
  forall t y, In y (g_yield (its st t)) ->
    nkey (sm st) (y_node y) = y_key y /\ y_node y <> 0 /\ bucket_of nb hf (y_key y) = y_b y /\
    (In (y_node y) (chain (sm st) (y_b y)) \/ In (y_node y) (g_retired (sm st))) /\
    (y_lin y <= length (g_lin (sm st)))%nat /\
    (exists j t' v, (j < y_lin y)%nat /\ nth_error (g_lin (sm st)) j = Some (LIns t' (y_key y) v (y_node y))) /\
    y_reach y = true /\
    (y_wit y = true \/
     exists j t' i, (j < y_lin y)%nat /\ nth_error (g_lin (sm st)) j = Some (LDel t' (y_key y) (y_node y) i)).
Proof. exact it_yield_sound. Qed.
Print Assumptions C09_hmm_yield_sound.

(** ORDER ACROSS BUCKETS / NO DUPLICATES: a later position lies in a later bucket, or in the same bucket on a strictly
    greater node, or carries the same key on a different node linked by an insertion between the two yields *)
Theorem C09_hmm_no_duplicate : forall nb memo lex hf st, reach (init nb) (step nb memo lex hf) st ->
  forall t i j y1 y2, ord memo lex -> (i < j)%nat ->
    nth_error (g_yield (its st t)) i = Some y1 -> nth_error (g_yield (its st t)) j = Some y2 ->
    y_b y1 < y_b y2 \/
    (y_b y1 = y_b y2 /\
     (le2 memo lex hf (sm st) (y_node y2) (y_node y1) = false \/
      (y_key y1 = y_key y2 /\ y_node y1 <> y_node y2 /\
       exists n t' v, nth_error (g_lin (sm st)) n = Some (LIns t' (y_key y2) v (y_node y2)) /\ (y_lin y1 <= n < y_lin y2)%nat))).
Proof. exact it_no_duplicate. Qed.
Print Assumptions C09_hmm_no_duplicate.

(** no key is yielded twice in one traversal unless it was re-inserted between the two yields *)
Theorem C09_hmm_no_duplicate_key : forall nb memo lex hf st, reach (init nb) (step nb memo lex hf) st ->
  forall t i j y1 y2, ord memo lex -> (i < j)%nat ->
    nth_error (g_yield (its st t)) i = Some y1 -> nth_error (g_yield (its st t)) j = Some y2 -> y_key y1 = y_key y2 ->
    y_node y1 <> y_node y2 /\
    exists n t' v, nth_error (g_lin (sm st)) n = Some (LIns t' (y_key y2) v (y_node y2)) /\ (y_lin y1 <= n < y_lin y2)%nat.
Proof. exact it_no_duplicate_key. Qed.
Print Assumptions C09_hmm_no_duplicate_key.

(** COMPLETENESS (state level): all keys of [g_always] in the earlier buckets, and in the current bucket up to the
    current position, have been yielded; at end() all of them, whatever their bucket *)
Theorem C09_hmm_complete_upto : forall nb memo lex hf st, reach (init nb) (step nb memo lex hf) st ->
  forall t k, ord memo lex -> g_trav (its st t) = true -> g_lo (its st t) = None -> in_start (th st t) = false ->
    In k (g_always (its st t)) -> behind nb memo lex hf (sm st) (it_b (its st t)) (it_cur (its st t)) k -> yielded (its st t) k.
Proof. exact it_complete_upto. Qed.
Print Assumptions C09_hmm_complete_upto.

Theorem C09_hmm_complete_state : forall nb memo lex hf st, reach (init nb) (step nb memo lex hf) st ->
  forall t k, ord memo lex -> nb <> 0 -> g_trav (its st t) = true -> g_lo (its st t) = None -> in_start (th st t) = false ->
    it_cur (its st t) = 0 -> In k (g_always (its st t)) -> yielded (its st t) k.
Proof. exact it_complete. Qed.
Print Assumptions C09_hmm_complete_state.

(** meaning of [g_always]: exactly the keys that were in the abstract map in every state of the traversal *)
Theorem C09_hmm_always_exact : forall nb memo lex hf u s0 l s, trav_path nb memo lex hf u s0 l s ->
  forall k, In k (g_always (its s u)) <-> (forall s1, In s1 (s0 :: l) -> In k (akeys s1)).
Proof. exact it_always_exact. Qed.
Print Assumptions C09_hmm_always_exact.

(** COMPLETENESS (trace level): a traversal from begin() that has reached end() has yielded every key that was present
    in every state of the traversal - across all bucket transitions *)
Theorem C09_hmm_complete : forall nb memo lex hf u s0 l s, ord memo lex -> nb <> 0 ->
  reach (init nb) (step nb memo lex hf) s0 -> trav_path nb memo lex hf u s0 l s -> th s0 u = Begin OItB ->
  g_trav (its s u) = true -> in_start (th s u) = false -> it_cur (its s u) = 0 ->
  forall k, (forall s1, In s1 (s0 :: l) -> In k (akeys s1)) -> yielded (its s u) k.
Proof. exact it_complete_trace. Qed.
Print Assumptions C09_hmm_complete.

(** REFUTED for the former ordering predicate [hash >= h && key >= k] (memoized hash k mod 2, one bucket): the find
    started by operator++ on an erased node skips elements that were present throughout *)
Theorem C09_hmm_complete_refuted_conj :
  ~ (forall st t k, reach (init 1) (step 1 true false hf_mod2) st ->
       g_trav (its st t) = true -> g_lo (its st t) = None -> in_start (th st t) = false -> it_cur (its st t) = 0 ->
       In k (g_always (its st t)) -> yielded (its st t) k).
Proof. exact it_complete_refuted_conj. Qed.
Print Assumptions C09_hmm_complete_refuted_conj.

(** ERASE(ITERATOR) IS EXACT: the iterator variable is not changed during the call, and the only step that changes marks /
    the abstract map is the successful mark CAS on exactly the node the iterator stands on, removing exactly its key *)
Theorem C09_hmm_erase_exact : forall nb memo lex hf s t s' es,
  reach (init nb) (step nb memo lex hf) s -> step nb memo lex hf s (Step t) = Some (s', es) -> cur_op (th s t) = Some OItE ->
  (th s' t <> Idle -> its s' t = mkI (it_b (its s t)) (it_sv (its s t)) (it_cur (its s t)) (g_yield (its s t)) (g_lo (its s t))
                                    (g_trav (its s t)) (g_start (its s t)) (g_always (its s' t))) /\
  ((g_abs (sm s') = g_abs (sm s) /\ g_lin (sm s') = g_lin (sm s) /\ nmark (sm s') = nmark (sm s)) \/
   (exists nx, th s t = X2 nx /\ th s' t = X3 nx /\ let cur := it_cur (its s t) in
      nmark (sm s) cur = false /\ In cur (chain (sm s) (bk nb hf (sm s) cur)) /\
      lookup (nkey (sm s) cur) (g_abs (sm s)) = Some (nval (sm s) cur) /\
      g_abs (sm s') = remk (nkey (sm s) cur) (g_abs (sm s)) /\
      g_lin (sm s') = g_lin (sm s) ++ [LDel t (nkey (sm s) cur) cur true] /\
      (forall x, nmark (sm s') x = if x =? cur then true else nmark (sm s) x))).
Proof. exact it_erase_exact. Qed.
Print Assumptions C09_hmm_erase_exact.

(** ... AND RETURNS THE SUCCESSOR, possibly in a later bucket: end(), or a new position recorded right after the one of
    the erased node: a later bucket, or the same bucket and a node that is not <= the erased one, or a re-inserted equal key *)
Theorem C09_hmm_erase_return : forall nb memo lex hf s t s' es,
  reach (init nb) (step nb memo lex hf) s -> step nb memo lex hf s (Step t) = Some (s', es) ->
  cur_op (th s t) = Some OItE -> th s' t = Idle -> it_cur (its s t) <> 0 ->
  it_cur (its s' t) = 0 \/
  exists ys y_o y_n, g_yield (its s' t) = ys ++ [y_o; y_n] /\
    y_node y_o = it_cur (its s t) /\ y_node y_n = it_cur (its s' t) /\ y_b y_n = it_b (its s' t) /\
    bucket_of nb hf (y_key y_n) = y_b y_n /\ ystep memo lex hf (sm s') y_o y_n.
Proof. exact it_erase_return. Qed.
Print Assumptions C09_hmm_erase_return.

(** non-vacuity: a complete traversal across two buckets with a concurrent erase of the element the iterator stands on *)
Theorem C09_hmm_nonvacuous_trav :
  let st := st_of 2 true true hf_mod2 ex_trav in
  g_yield (its st 3%nat) = [mkY 0 10 1 true true 3; mkY 0 20 3 true true 4; mkY 1 15 2 true true 4] /\
  it_b (its st 3%nat) = 1 /\ it_cur (its st 3%nat) = 0 /\ g_trav (its st 3%nat) = true /\ g_lo (its st 3%nat) = None /\
  g_start (its st 3%nat) = [20; 15; 10] /\ g_always (its st 3%nat) = [20; 15] /\ th st 3%nat = Idle /\
  g_retired (sm st) = [1].
Proof. exact ex_trav_state. Qed.
Print Assumptions C09_hmm_nonvacuous_trav.

(** erase(iterator) on the last element of bucket 0 returns the first element of bucket 1 *)
Theorem C09_hmm_nonvacuous_erase :
  let st := st_of 2 true true hf_mod2 ex_ite in
  g_yield (its st 3%nat) = [mkY 0 20 3 true true 3; mkY 1 15 2 true true 4] /\
  it_b (its st 3%nat) = 1 /\ it_cur (its st 3%nat) = 2 /\ g_abs (sm st) = [(15, 150); (10, 100)] /\ g_retired (sm st) = [3] /\
  g_lin (sm st) = [LIns 1 10 100 1; LIns 1 15 150 2; LIns 1 20 200 3; LDel 3 20 3 true].
Proof. exact ex_ite_state. Qed.
Print Assumptions C09_hmm_nonvacuous_erase.

(** the schedule of the refutation under the ordering predicate of the code: complete *)
Theorem C09_hmm_nonvacuous_lex :
  let st := st_of 1 true true hf_mod2 ex_skip in
  map (nkey (sm st)) (chain (sm st) 0) = [10; 20] /\ map y_key (g_yield (its st 3%nat)) = [10; 20] /\
  it_cur (its st 3%nat) = 0 /\ g_always (its st 3%nat) = [20; 10].
Proof. exact ex_skip_lex. Qed.
Print Assumptions C09_hmm_nonvacuous_lex.
