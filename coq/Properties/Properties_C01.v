(** C01 - reclamation: property theorems (statements only). *)
From Coq Require Import NArith List Bool.
Local Open Scope N_scope.
(** placeholder obligation (the reclamation models of Model/Recl*.v replace it) *)
Theorem C01_epoch_slots : forall e : N, (e + 3) mod 3 = e mod 3.
Proof. intros e. rewrite <- (N.mul_1_l 3) at 1. rewrite N.mod_add by discriminate. reflexivity. Qed.
Print Assumptions C01_epoch_slots.
