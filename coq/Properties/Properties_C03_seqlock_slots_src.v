(** C03 / C14 - seqlock with slots > 1 over the weak-memory machine, instantiated with the memory orders GENERATED
    from xenium/seqlock.hpp (gen/SeqlockOrders.v): property theorems (statements only). *)
From Coq Require Import Arith NArith List Bool.
From XV Require Import WM.View WM.SeqlockWM WM.SeqlockWMSlots WM.SeqlockWMSlotsProof gen.SeqlockOrders Proof.SeqlockOrdersOk.
Import ListNotations.

Theorem C03_seqlock_slots_source_orders_ok : orders_ok_slots gen_orders = true.
Proof. exact gen_orders_ok_slots. Qed.
Print Assumptions C03_seqlock_slots_source_orders_ok.

Theorem C03_seqlock_slots_source_weak_atomic : forall K W, 1 <= K -> 1 <= W ->
  forall s, preach K W gen_orders s ->
  (forall t c0 mq buf, pcs s t = RdDone c0 mq buf ->
     exists g,
       length buf = W /\
       rd_slot K (m_val mq) = g mod K /\
       (forall j m, nth_error buf j = Some m ->
          g_gen s (g mod K) j (m_ts m) = g /\ m_val m = nth j (nth g (g_hist s) []) 0%N) /\
       ret_gens s (g mod K) buf = repeat g W /\
       ret_vals buf = nth g (g_hist s) [] /\
       g < length (g_hist s) /\ g <= g_cur s /\ 2 * g <= last_ts (memory (ms s) seqL) /\
       2 * g <= m_ts mq <= 2 * g + 1 /\
       c0 <= 2 * g + 1) /\
  (forall t f q buf, pcs s t = WrRFence f q buf ->
     1 <= g_cur s /\ length (g_hist s) = g_cur s /\ length buf = W /\
     upd_slot K q = (g_cur s - 1) mod K /\
     (forall j m, nth_error buf j = Some m -> g_gen s (upd_slot K q) j (m_ts m) = g_cur s - 1) /\
     ret_gens s (upd_slot K q) buf = repeat (g_cur s - 1) W /\
     ret_vals buf = nth (g_cur s - 1) (g_hist s) []) /\
  (forall t1 t2, locked (pcs s t1) = true -> locked (pcs s t2) = true -> t1 = t2).
Proof. exact source_weak_atomic_slots. Qed.
Print Assumptions C03_seqlock_slots_source_weak_atomic.
