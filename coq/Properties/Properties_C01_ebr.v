(** C01 / C02 for xenium::reclamation::epoch_based<> (generic_epoch_based with scan_frequency<1>, scan::all_threads,
    abandon::never, region_extension::none): property theorems (statements only; proofs live in Proof/EbrInv.v and the
    layers it names).  [EbrDefs] is the step-level model of the reclaimer under the generic protocol-conforming client of
    harness/h_recl.cpp (repl / clear / read / hold / drop / deref, thread exit), tied to the code by trace
    correspondence (build/h_ebr = h_recl.cpp with rt::EBR and the reclaimer's statics named; also build/h_recl_ebr).
    [reach (init nc) (step ns)]: every state reachable with nc cells and ns guard slots per thread, any number of
    threads, any programs, any schedule.
    [holds st u n]: thread u holds a guard_ptr on node n (a persistent guard of the client or the guard of a running
    repl/clear);  [g_nfree st n]: how often the reclaimer ran n's deleter;  [g_where st n]: where the retired node n is;
    [g_life st n = LRet t r]: n was unlinked and retired by t whose local epoch was r;  [g_uaf]: a dereference hit a
    destroyed node;  [ve p le]: the validated epoch of a thread at program point p with published local epoch le. *)
From Coq Require Import NArith List.
From XV Require Import Conc.Lts Conc.Ev Model.EbrDefs Proof.EbrBase Proof.EbrEpoch Proof.EbrNodes Proof.EbrTags Proof.EbrGuards Proof.EbrFlush Proof.EbrInv.
Import ListNotations.
Local Open Scope N_scope.

(** C01, MAIN RESULT: no object is destroyed while a guard_ptr protects it, and no dereference hits a destroyed object *)
Theorem C01_ebr_safe : forall ns nc st, reach (init nc) (step ns) st ->
  (forall u n, holds st u n -> g_nfree st n = O /\ g_where st n <> PFreed /\ g_life st n <> LDropped) /\
  g_uaf st = false.
Proof. exact ebr_safe. Qed.
Print Assumptions C01_ebr_safe.

(** the epoch argument behind it: a thread inside a critical region with validated epoch v keeps global_epoch <= v + 1 ... *)
Theorem C01_ebr_epoch_window : forall ns nc st, reach (init nc) (step ns) st ->
  forall u b v, cb (tl st u) = Some b -> bflag st b = true -> ve (th st u) (blocal st b) = Some v -> gep st <= v + 1.
Proof. exact ebr_epoch_window. Qed.
Print Assumptions C01_ebr_epoch_window.

(** ... and a node retired in local epoch r is freed only when global_epoch >= r + 3 *)
Theorem C01_ebr_free_epoch : forall ns nc st, reach (init nc) (step ns) st ->
  forall n t r, g_where st n = PFreed -> g_life st n = LRet t r -> r + 3 <= gep st.
Proof. exact ebr_free_epoch. Qed.
Print Assumptions C01_ebr_free_epoch.

(** C02, safety half: a retired object is destroyed at most once, only retired objects are destroyed by the reclaimer,
    a retired object is in exactly one place (a retire list, an orphan list - also after its retiring thread exited -,
    adopted, or freed), nothing is dropped or duplicated *)
Theorem C02_ebr_exactly_once : forall ns nc st, reach (init nc) (step ns) st ->
  (forall n, (g_nfree st n <= 1)%nat) /\
  (forall n, g_nfree st n = 1%nat <-> g_where st n = PFreed) /\
  (forall n, g_where st n <> PNone <-> exists t r, g_life st n = LRet t r) /\
  (forall u i n, In n (rl (tl st u) i) <-> g_where st n = PList u i) /\
  (forall i n, In n (orph st i) <-> g_where st n = POrph i) /\
  (forall u n, In n (flight (th st u)) <-> g_where st n = PFlight u) /\
  (forall u i, NoDup (rl (tl st u) i)) /\ (forall i, NoDup (orph st i)) /\ (forall u, NoDup (flight (th st u))).
Proof. exact ebr_exactly_once. Qed.
Print Assumptions C02_ebr_exactly_once.

(** every FREE event of the trace: the client's delete of its own unpublished node, or the reclaimer's first and only
    delete of a retired node *)
Theorem C02_ebr_free_event : forall ns nc st a st' es, reach (init nc) (step ns) st -> step ns st a = Some (st', es) ->
  forall t n, In (EFree t n) es ->
    (g_life st n = LFresh t /\ g_life st' n = LDropped) \/
    ((exists t' r, g_life st n = LRet t' r) /\ g_nfree st n = O /\ g_nfree st' n = 1%nat).
Proof. exact ebr_free_event. Qed.
Print Assumptions C02_ebr_free_event.

(** C02, liveness half as a bounded solo run.  [Quiet ns nc t c s b]: s is reachable, thread t is between operations, owns
    control block b and holds no guard, every control block of the list has is_in_critical_region = false (no thread is
    inside a critical region), cell c is not null.  [flush ns t c 7 s s']: t executes seven repl operations on cell c
    alone (each one runs to completion: acquire a guard = enter a critical region, replace the node, retire the old
    one - the teardown of the harness), ending in s'.  Then every node that was in an orphan list (e.g. handed over by an
    exited thread) or in one of t's retire lists is freed. *)
Theorem C02_ebr_no_leak_at_quiescence : forall ns nc t c s b, Quiet ns nc t c s b ->
  exists s', flush ns t c 7 s s' /\ Quiet ns nc t c s' b /\
    forall n, (g_where s n = PFreed \/ exists i, g_where s n = POrph i \/ g_where s n = PList t i) -> g_where s' n = PFreed.
Proof. exact ebr_no_leak_at_quiescence. Qed.
Print Assumptions C02_ebr_no_leak_at_quiescence.

