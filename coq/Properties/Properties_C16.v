(** C16 - lock-freedom: property theorems (statements only). *)
From Coq Require Import NArith List.
Local Open Scope N_scope.
(** placeholder obligation (solo-termination bounds over the proved models replace it) *)
Theorem C16_budget_monotone : forall used budget extra : N, used <= budget -> used <= budget + extra.
Proof. intros. eapply N.le_trans; [eassumption|]. apply N.le_add_r. Qed.
Print Assumptions C16_budget_monotone.
