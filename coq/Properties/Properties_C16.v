(** C16 - lock-free operations finish in bounded solo steps from every reachable state:
    property theorems (statements only; proofs live in Proof/*Solo.v, the notions in Conc/Solo.v).

    [finishes_within step Step idle t B s]: the run in which only thread t moves, started in s,
    reaches a state where t is between operations after at most B steps, every one of them enabled.
    [never_stuck]: no step of that run is disabled (a disabled step models waiting).
    [blocks]: t finishes within NO bound (the documented exceptions; shows the notion is not vacuous).
    [reach] quantifies over all programs, all schedules and any number of threads, so the other
    threads are stopped at arbitrary points inside their operations. *)
From Coq Require Import NArith List.
Import ListNotations.
From XV Require Import Base.Word Conc.Lts Conc.Solo.
From XV Require Model.ChaseDefs Model.LeftRightDefs Model.VyukovDefs Model.MsqDefs Model.SeqlockDefs.
From XV Require Proof.VyukovInv Proof.SeqlockInv.
From XV Require Proof.ChaseSolo Proof.LeftRightSolo Proof.VyukovSolo Proof.MsqSolo Proof.SeqlockSolo.
Local Open Scope N_scope.

(** the executable solo run decides [finishes_within] (what a harness computes) *)
Theorem C16_solo_run_decides : forall (S A E : Type) (step : S -> A -> option (S * list E)) (act : nat -> A)
  (idle : S -> nat -> bool) t B s,
  finishes_within step act idle t B s <-> exists s' n, solo_run step act idle t B 0 s = Done s' n.
Proof. exact finishes_within_run. Qed.
Print Assumptions C16_solo_run_decides.

(** * chase_work_stealing_deque: try_push / try_pop / try_steal, any policy, state-dependent bound *)
Theorem C16_chase_all_solo : forall pol s t,
  reach (ChaseDefs.init pol) (ChaseDefs.step pol) s ->
  finishes_within (ChaseDefs.step pol) ChaseDefs.Step ChaseSolo.idle t (ChaseSolo.chase_bound pol s t) s /\
  never_stuck (ChaseDefs.step pol) ChaseDefs.Step ChaseSolo.idle t s.
Proof. intros pol s t H. split; [exact (ChaseSolo.chase_solo pol s t H)|exact (ChaseSolo.chase_never_stuck pol s t H)]. Qed.
Print Assumptions C16_chase_all_solo.

(** Fixed policy: try_push 5, try_steal 5, try_pop 8 steps (START step included) *)
Theorem C16_chase_fixed_solo : forall c s t,
  reach (ChaseDefs.init (ChaseDefs.Fixed c)) (ChaseDefs.step (ChaseDefs.Fixed c)) s ->
  finishes_within (ChaseDefs.step (ChaseDefs.Fixed c)) ChaseDefs.Step ChaseSolo.idle t
    (ChaseSolo.fixed_op_bound (ChaseDefs.th s t)) s.
Proof. exact ChaseSolo.chase_fixed_solo. Qed.
Print Assumptions C16_chase_fixed_solo.

Theorem C16_chase_fixed_solo_8 : forall c s t,
  reach (ChaseDefs.init (ChaseDefs.Fixed c)) (ChaseDefs.step (ChaseDefs.Fixed c)) s ->
  finishes_within (ChaseDefs.step (ChaseDefs.Fixed c)) ChaseDefs.Step ChaseSolo.idle t 8 s.
Proof. exact ChaseSolo.chase_fixed_solo_8. Qed.
Print Assumptions C16_chase_fixed_solo_8.

(** Growing policy: try_push 12 + 2 * capacity (grow copies at most capacity + 1 entries, one load
    and one store each; an unfinished grow: 2 * remaining entries + 4), try_pop 9, try_steal 6 *)
Theorem C16_chase_growing_solo : forall mn mx s t,
  reach (ChaseDefs.init (ChaseDefs.Growing mn mx)) (ChaseDefs.step (ChaseDefs.Growing mn mx)) s ->
  finishes_within (ChaseDefs.step (ChaseDefs.Growing mn mx)) ChaseDefs.Step ChaseSolo.idle t
    (ChaseSolo.growing_op_bound (N.to_nat (ChaseDefs.capacity (ChaseDefs.sh s))) (ChaseDefs.th s t)) s.
Proof. exact ChaseSolo.chase_growing_solo. Qed.
Print Assumptions C16_chase_growing_solo.

(** ... and in terms of the configuration only *)
Theorem C16_chase_growing_solo_max : forall a b, a <= b -> b <= 62 -> forall s t,
  reach (ChaseDefs.init (ChaseDefs.Growing (2 ^ a) (2 ^ b))) (ChaseDefs.step (ChaseDefs.Growing (2 ^ a) (2 ^ b))) s ->
  finishes_within (ChaseDefs.step (ChaseDefs.Growing (2 ^ a) (2 ^ b))) ChaseDefs.Step ChaseSolo.idle t
    (12 + 2 * N.to_nat (2 ^ b)) s.
Proof. exact ChaseSolo.chase_growing_solo_max. Qed.
Print Assumptions C16_chase_growing_solo_max.

(** an operation started by an idle thread (the owner for push/pop) *)
Theorem C16_chase_start_solo : forall pol s t o s' es,
  reach (ChaseDefs.init pol) (ChaseDefs.step pol) s ->
  ChaseDefs.step pol s (ChaseDefs.Start t o) = Some (s', es) ->
  finishes_within (ChaseDefs.step pol) ChaseDefs.Step ChaseSolo.idle t
    (ChaseSolo.pc_mu (ChaseDefs.is_growing pol) (N.to_nat (ChaseDefs.capacity (ChaseDefs.sh s))) (ChaseDefs.Begin o)) s'.
Proof. exact ChaseSolo.chase_solo_start. Qed.
Print Assumptions C16_chase_start_solo.

(** * left_right: read is wait-free, exactly 7 steps from its start (exactly [lr_read_bound] inside) *)
Theorem C16_leftright_read_solo : forall s t,
  reach LeftRightDefs.init LeftRightDefs.step s -> LeftRightSolo.read_pc (LeftRightDefs.th s t) = true ->
  finishes_exactly LeftRightDefs.step LeftRightDefs.Step LeftRightSolo.idle t (LeftRightSolo.lr_read_bound s t) s /\
  finishes_within LeftRightDefs.step LeftRightDefs.Step LeftRightSolo.idle t 7 s /\
  never_stuck LeftRightDefs.step LeftRightDefs.Step LeftRightSolo.idle t s.
Proof.
  intros s t H1 H2. split; [exact (LeftRightSolo.lr_read_solo_exact s t H1 H2)|].
  split; [exact (LeftRightSolo.lr_read_solo_7 s t H1 H2)|exact (LeftRightSolo.lr_read_never_stuck s t H1 H2)].
Qed.
Print Assumptions C16_leftright_read_solo.

Theorem C16_leftright_read_start_solo : forall s t s' es,
  reach LeftRightDefs.init LeftRightDefs.step s ->
  LeftRightDefs.step s (LeftRightDefs.Start t LeftRightDefs.ORead) = Some (s', es) ->
  finishes_exactly LeftRightDefs.step LeftRightDefs.Step LeftRightSolo.idle t 7 s'.
Proof. exact LeftRightSolo.lr_read_solo_start. Qed.
Print Assumptions C16_leftright_read_start_solo.

(** update is blocking: it waits for the mutex / for a reader that is stopped inside its read *)
Theorem C16_leftright_update_blocking_mutex :
  reach LeftRightDefs.init LeftRightDefs.step LeftRightSolo.lr_block_state_a /\
  LeftRightDefs.th LeftRightSolo.lr_block_state_a 2%nat = LeftRightDefs.Begin (LeftRightDefs.OUpdate 7) /\
  blocks LeftRightDefs.step LeftRightDefs.Step LeftRightSolo.idle 2%nat LeftRightSolo.lr_block_state_a.
Proof. exact LeftRightSolo.lr_update_blocking_mutex. Qed.
Print Assumptions C16_leftright_update_blocking_mutex.

Theorem C16_leftright_update_blocking_spin :
  reach LeftRightDefs.init LeftRightDefs.step LeftRightSolo.lr_block_state_b /\
  LeftRightDefs.th LeftRightSolo.lr_block_state_b 1%nat = LeftRightDefs.Begin (LeftRightDefs.OUpdate 5) /\
  (forall t, t <> 1%nat -> t <> 2%nat -> LeftRightDefs.th LeftRightSolo.lr_block_state_b t = LeftRightDefs.Idle) /\
  LeftRightDefs.mutex (LeftRightDefs.sh LeftRightSolo.lr_block_state_b) = None /\
  blocks LeftRightDefs.step LeftRightDefs.Step LeftRightSolo.idle 1%nat LeftRightSolo.lr_block_state_b.
Proof. exact LeftRightSolo.lr_update_blocking_spin. Qed.
Print Assumptions C16_leftright_update_blocking_spin.

(** * vyukov_bounded_queue: the weak try_push / try_pop finish within 5 steps *)
Theorem C16_vyukov_weak_solo : forall cap k, 1 <= k -> k <= 30 -> cap = 2 ^ k -> forall s t,
  reach VyukovDefs.init (VyukovDefs.step cap) s ->
  VyukovInv.nn (VyukovDefs.g_in s) + 1 < 2 ^ 62 ->
  VyukovSolo.weak_pc (VyukovDefs.th s t) = true ->
  finishes_within (VyukovDefs.step cap) VyukovDefs.Step VyukovSolo.idle t (VyukovSolo.vyu_weak_bound s t) s /\
  (VyukovSolo.vyu_weak_bound s t <= 5)%nat /\
  never_stuck (VyukovDefs.step cap) VyukovDefs.Step VyukovSolo.idle t s.
Proof.
  intros cap k H1 H2 H3 s t Hr Hb Hw.
  split; [exact (VyukovSolo.vyu_weak_solo cap k H1 H2 H3 s t Hr Hb Hw)|].
  split; [exact (VyukovSolo.vyu_weak_bound_le5 s t)|exact (VyukovSolo.vyu_weak_never_stuck cap k H1 H2 H3 s t Hr Hb Hw)].
Qed.
Print Assumptions C16_vyukov_weak_solo.

Theorem C16_vyukov_weak_start_solo : forall cap k, 1 <= k -> k <= 30 -> cap = 2 ^ k -> forall s t o s' es,
  reach VyukovDefs.init (VyukovDefs.step cap) s ->
  VyukovInv.nn (VyukovDefs.g_in s) + 1 < 2 ^ 62 ->
  (match o with VyukovDefs.OPush w _ => w | VyukovDefs.OPop w => w end) = true ->
  VyukovDefs.step cap s (VyukovDefs.Start t o) = Some (s', es) ->
  finishes_within (VyukovDefs.step cap) VyukovDefs.Step VyukovSolo.idle t 5 s'.
Proof. exact VyukovSolo.vyu_weak_solo_start. Qed.
Print Assumptions C16_vyukov_weak_start_solo.

(** the strong operations block: a solo thread spins on a cell held by a stopped thread *)
Theorem C16_vyukov_strong_push_blocking :
  reach VyukovDefs.init (VyukovDefs.step 2) VyukovSolo.vyu_block_state_push /\
  VyukovDefs.th VyukovSolo.vyu_block_state_push 1%nat = VyukovDefs.Begin (VyukovDefs.OPush false 12) /\
  blocks (VyukovDefs.step 2) VyukovDefs.Step VyukovSolo.idle 1%nat VyukovSolo.vyu_block_state_push.
Proof. exact VyukovSolo.vyu_strong_push_blocking. Qed.
Print Assumptions C16_vyukov_strong_push_blocking.

Theorem C16_vyukov_strong_pop_blocking :
  reach VyukovDefs.init (VyukovDefs.step 2) VyukovSolo.vyu_block_state_pop /\
  VyukovDefs.th VyukovSolo.vyu_block_state_pop 2%nat = VyukovDefs.Begin (VyukovDefs.OPop false) /\
  blocks (VyukovDefs.step 2) VyukovDefs.Step VyukovSolo.idle 2%nat VyukovSolo.vyu_block_state_pop.
Proof. exact VyukovSolo.vyu_strong_pop_blocking. Qed.
Print Assumptions C16_vyukov_strong_pop_blocking.

(** * michael_scott_queue: push within 9 (8 from its start), pop within 12 (11 from its start) *)
Theorem C16_msq_push_pop_solo : forall s t,
  reach MsqDefs.init MsqDefs.step s ->
  finishes_within MsqDefs.step MsqDefs.Step MsqSolo.idle t (MsqSolo.msq_bound s t) s /\
  (MsqSolo.msq_bound s t <= MsqSolo.msq_op_bound (MsqDefs.th s t))%nat /\
  finishes_within MsqDefs.step MsqDefs.Step MsqSolo.idle t 12 s /\
  never_stuck MsqDefs.step MsqDefs.Step MsqSolo.idle t s.
Proof.
  intros s t H. split; [exact (MsqSolo.msq_solo s t H)|]. split; [exact (MsqSolo.msq_bound_le s t)|].
  split; [exact (MsqSolo.msq_solo_12 s t H)|exact (MsqSolo.msq_never_stuck s t H)].
Qed.
Print Assumptions C16_msq_push_pop_solo.

Theorem C16_msq_start_solo : forall s t o s' es,
  reach MsqDefs.init MsqDefs.step s -> MsqDefs.step s (MsqDefs.Start t o) = Some (s', es) ->
  finishes_within MsqDefs.step MsqDefs.Step MsqSolo.idle t
    (match o with MsqDefs.OPush _ => 8 | MsqDefs.OPop => 11 end) s'.
Proof. exact MsqSolo.msq_solo_start. Qed.
Print Assumptions C16_msq_start_solo.

(** * seqlock: load with more than one slot within 2 * words + 4 (words + 4 from its start) *)
Theorem C16_seqlock_load_solo : forall slots words func v0,
  2 <= slots -> slots < 2 ^ 30 -> (1 <= words)%nat -> forall s t,
  reach (SeqlockDefs.init v0) (SeqlockDefs.step slots words func) s -> SeqlockInv.Bnd s ->
  SeqlockSolo.load_pc (SeqlockDefs.th s t) = true ->
  finishes_within (SeqlockDefs.step slots words func) SeqlockDefs.Step SeqlockSolo.idle t
    (SeqlockSolo.seqlock_load_bound slots words s t) s /\
  (SeqlockSolo.seqlock_load_bound slots words s t <= 2 * words + 4)%nat /\
  never_stuck (SeqlockDefs.step slots words func) SeqlockDefs.Step SeqlockSolo.idle t s.
Proof.
  intros slots words func v0 H1 H2 H3 s t Hr HB Hw.
  split; [exact (SeqlockSolo.seqlock_load_solo slots words func v0 H1 H2 H3 s t Hr HB Hw)|].
  split; [exact (SeqlockSolo.seqlock_load_bound_le slots words s t)|].
  exact (SeqlockSolo.seqlock_load_never_stuck slots words func v0 H1 H2 H3 s t Hr HB Hw).
Qed.
Print Assumptions C16_seqlock_load_solo.

Theorem C16_seqlock_load_start_solo : forall slots words func v0,
  2 <= slots -> slots < 2 ^ 30 -> (1 <= words)%nat -> forall s t s' es,
  reach (SeqlockDefs.init v0) (SeqlockDefs.step slots words func) s -> SeqlockInv.Bnd s ->
  SeqlockDefs.step slots words func s (SeqlockDefs.Start t SeqlockDefs.OLoad) = Some (s', es) ->
  finishes_within (SeqlockDefs.step slots words func) SeqlockDefs.Step SeqlockSolo.idle t (words + 4) s'.
Proof. exact SeqlockSolo.seqlock_load_solo_start. Qed.
Print Assumptions C16_seqlock_load_start_solo.

(** one slot: load blocks behind a stopped writer; store / update block for any number of slots *)
Theorem C16_seqlock_load_one_slot_blocking :
  reach (SeqlockDefs.init [0]) (SeqlockDefs.step 1 1 SeqlockSolo.idf) SeqlockSolo.sl_block_state_load /\
  SeqlockDefs.th SeqlockSolo.sl_block_state_load 2%nat = SeqlockDefs.Begin SeqlockDefs.OLoad /\
  blocks (SeqlockDefs.step 1 1 SeqlockSolo.idf) SeqlockDefs.Step SeqlockSolo.idle 2%nat SeqlockSolo.sl_block_state_load.
Proof. exact SeqlockSolo.seqlock_load_one_slot_blocking. Qed.
Print Assumptions C16_seqlock_load_one_slot_blocking.

Theorem C16_seqlock_store_blocking :
  reach (SeqlockDefs.init [0]) (SeqlockDefs.step 2 1 SeqlockSolo.idf) SeqlockSolo.sl_block_state_store /\
  SeqlockDefs.th SeqlockSolo.sl_block_state_store 2%nat = SeqlockDefs.Begin (SeqlockDefs.OStore 2 [9]) /\
  blocks (SeqlockDefs.step 2 1 SeqlockSolo.idf) SeqlockDefs.Step SeqlockSolo.idle 2%nat SeqlockSolo.sl_block_state_store.
Proof. exact SeqlockSolo.seqlock_store_blocking. Qed.
Print Assumptions C16_seqlock_store_blocking.

Theorem C16_seqlock_update_blocking :
  reach (SeqlockDefs.init [0]) (SeqlockDefs.step 2 1 SeqlockSolo.idf) SeqlockSolo.sl_block_state_update /\
  SeqlockDefs.th SeqlockSolo.sl_block_state_update 2%nat = SeqlockDefs.Begin (SeqlockDefs.OUpdate 3) /\
  blocks (SeqlockDefs.step 2 1 SeqlockSolo.idf) SeqlockDefs.Step SeqlockSolo.idle 2%nat SeqlockSolo.sl_block_state_update.
Proof. exact SeqlockSolo.seqlock_update_blocking. Qed.
Print Assumptions C16_seqlock_update_blocking.
