(** C08 - harris_michael_hash_map is a linearizable map of unique keys: property theorems (statements only; the
    proofs live in Proof/HmmInv.v).  [HmmDefs] is a step-level model of
    harris_michael_hash_map<long, long, reclaimer<GC>, buckets<nb>, memoize_hash<memo>, hash<hf>>
    (emplace, get_or_emplace, erase(key), contains, find, and the iterator operations of C09), tied to the code by
    trace correspondence (driver instance [hmm], harness h_hmm / h_hm with -DXV_RECL=GC).  All theorems hold for
    EVERY bucket count [nb], both memoization modes [memo], every hash function [hf], and for both ordering
    predicates of data_with_hash::greater_or_equal ([lex = true]: the lexicographic one of the code,
    [lex = false]: the former [hash >= h && key >= k]); [reach (init nb) (step nb memo lex hf) st] quantifies over
    any number of threads, any program, any schedule. *)
From Coq Require Import NArith List Sorted.
From XV Require Import Base.Word Conc.Lts Conc.Ev Model.HmmDefs Proof.HmmInv.
Import ListNotations.
Local Open Scope N_scope.

(** the invariant behind everything *)
Theorem C08_hmm_inv : forall nb memo lex hf st, reach (init nb) (step nb memo lex hf) st -> Inv nb memo lex hf st.
Proof. exact Inv_reach. Qed.
Print Assumptions C08_hmm_inv.

(** every bucket chain: linked from the bucket head to null, ordered by the predicate the code actually uses
    ([le2 y x = false]: a later node is not <= an earlier one), duplicate-free, all nodes allocated, in the bucket
    their hash selects, stored hash = hash of the key *)
Theorem C08_hmm_structure : forall nb memo lex hf st, reach (init nb) (step nb memo lex hf) st -> forall b,
  HmlInv.linksto (pnext (sm st) b) (0 :: chain (sm st) b) 0 /\
  StronglySorted (fun x y => le2 memo lex hf (sm st) y x = false) (chain (sm st) b) /\
  NoDup (chain (sm st) b) /\
  (forall x, In x (chain (sm st) b) ->
     x <> 0 /\ x < nalloc (sm st) /\ bucket_of nb hf (nkey (sm st) x) = b /\ nhash (sm st) x = hf (nkey (sm st) x)).
Proof. exact hmm_structure. Qed.
Print Assumptions C08_hmm_structure.

(** the order in plain words: by key without memoization; by (hash, key) lexicographically with the code's
    predicate; pairwise "smaller hash or smaller key" with the former predicate *)
Theorem C08_hmm_order_nomemo : forall memo lex hf m x y, memo = false ->
  (le2 memo lex hf m y x = false <-> nkey m x < nkey m y).
Proof. exact le2_nomemo. Qed.
Print Assumptions C08_hmm_order_nomemo.
Theorem C08_hmm_order_lex : forall memo lex hf m x y, memo = true -> lex = true ->
  (le2 memo lex hf m y x = false <-> nhash m x < nhash m y \/ (nhash m x = nhash m y /\ nkey m x < nkey m y)).
Proof. exact le2_lex. Qed.
Print Assumptions C08_hmm_order_lex.
Theorem C08_hmm_order_conj : forall memo lex hf m x y, memo = true -> lex = false ->
  (le2 memo lex hf m y x = false <-> nhash m x < nhash m y \/ nkey m x < nkey m y).
Proof. exact le2_conj. Qed.
Print Assumptions C08_hmm_order_conj.

Theorem C08_hmm_buckets_disjoint : forall nb memo lex hf st, reach (init nb) (step nb memo lex hf) st ->
  forall b b' x, In x (chain (sm st) b) -> In x (chain (sm st) b') -> b = b'.
Proof. exact hmm_buckets_disjoint. Qed.
Print Assumptions C08_hmm_buckets_disjoint.

Theorem C08_hmm_retired : forall nb memo lex hf st, reach (init nb) (step nb memo lex hf) st ->
  NoDup (g_retired (sm st)) /\
  (forall x, In x (g_retired (sm st)) ->
     (forall b, ~ In x (chain (sm st) b)) /\ nmark (sm st) x = true /\ x <> 0 /\ x < nalloc (sm st)) /\
  (forall x, nmark (sm st) x = true -> (exists b, In x (chain (sm st) b)) \/ In x (g_retired (sm st))) /\
  (forall t k v n, In (LIns t k v n) (g_lin (sm st)) -> nmark (sm st) n = false -> In n (chain (sm st) (bucket_of nb hf k))).
Proof. exact hmm_retired. Qed.
Print Assumptions C08_hmm_retired.

(** ABSTRACTION: the abstract map = key/value pairs of the unmarked reachable nodes; a key lives in the bucket its
    hash selects; the union over all buckets gives the same map; unique keys; = fold of the linearization events *)
Theorem C08_hmm_abs : forall nb memo lex hf st, reach (init nb) (step nb memo lex hf) st ->
  NoDup (keys (g_abs (sm st))) /\
  (forall k v, In (k, v) (g_abs (sm st)) <->
     exists x, In x (chain (sm st) (bucket_of nb hf k)) /\ nmark (sm st) x = false /\ nkey (sm st) x = k /\ nval (sm st) x = v) /\
  (forall k v, In (k, v) (g_abs (sm st)) <->
     exists b x, In x (chain (sm st) b) /\ nmark (sm st) x = false /\ nkey (sm st) x = k /\ nval (sm st) x = v) /\
  g_abs (sm st) = apply_lin (g_lin (sm st)).
Proof. exact hmm_abs. Qed.
Print Assumptions C08_hmm_abs.

(** RESULTS: every completed emplace / get_or_emplace / erase(key) / contains / find has the result (and value seen)
    of the sequential map [res_for] for the lookup of its key recorded at its linearization point *)
Theorem C08_hmm_hist : forall nb memo lex hf st, reach (init nb) (step nb memo lex hf) st ->
  forall h, In h (g_hist st) -> exists mo, h_wit h = Some mo /\ (h_res h, h_val h) = res_for (h_op h) mo.
Proof. exact hmm_hist. Qed.
Print Assumptions C08_hmm_hist.

(** the sequential specification does not mention the options *)
Theorem C08_hmm_spec : forall o mo, res_for o mo =
  match o with
  | OIns _ _ => (negb (is_some mo), 0)
  | OGet _ v => (negb (is_some mo), match mo with Some v' => v' | None => v end)
  | ODel _ | OHas _ => (is_some mo, 0)
  | OFind _ | OItF _ => (is_some mo, match mo with Some v' => v' | None => 0 end)
  | _ => (false, 0)
  end.
Proof. reflexivity. Qed.
Print Assumptions C08_hmm_spec.

(** the successful mutators: each erase event marked a distinct node (of racing erases exactly one succeeds), each
    insert event linked a distinct node that carries the key and the VALUE of the call, for ever *)
Theorem C08_hmm_lin_nodes : forall nb memo lex hf st, reach (init nb) (step nb memo lex hf) st ->
  (forall t k n i, In (LDel t k n i) (g_lin (sm st)) -> nmark (sm st) n = true /\ nkey (sm st) n = k) /\
  NoDup (del_nodes (g_lin (sm st))) /\
  (forall t k v n, In (LIns t k v n) (g_lin (sm st)) ->
     ((exists b, In n (chain (sm st) b)) \/ In n (g_retired (sm st))) /\ n <> 0 /\ nkey (sm st) n = k /\ nval (sm st) n = v) /\
  NoDup (ins_nodes (g_lin (sm st))) /\
  (forall x, nmark (sm st) x = true -> In x (del_nodes (g_lin (sm st)))) /\
  (forall b x, In x (chain (sm st) b) -> In x (ins_nodes (g_lin (sm st)))).
Proof. exact hmm_lin_nodes. Qed.
Print Assumptions C08_hmm_lin_nodes.

(** a call returns success iff it performed the linearization event: per thread, events = completed successful calls
    (+ the erase that has marked and not returned yet) *)
Theorem C08_hmm_pending : forall nb memo lex hf st, reach (init nb) (step nb memo lex hf) st ->
  forall t, proj_lin t (g_lin (sm st)) = proj_hist t (g_hist st) ++ pending (th st t).
Proof. exact hmm_pending. Qed.
Print Assumptions C08_hmm_pending.

Theorem C08_hmm_quiescent : forall nb memo lex hf st, reach (init nb) (step nb memo lex hf) st ->
  (forall t, th st t = Idle) ->
  g_abs (sm st) = apply_lin (g_lin (sm st)) /\ (forall t, proj_lin t (g_lin (sm st)) = proj_hist t (g_hist st)).
Proof. exact hmm_quiescent. Qed.
Print Assumptions C08_hmm_quiescent.

(** the abstract map changes exactly at the successful link CAS (a key that was absent is added with the value of the
    call) and at the successful mark CAS of erase(key) / erase(iterator) (the key of the node, which was present) *)
Theorem C08_hmm_abs_step : forall nb memo lex hf s a s' es,
  reach (init nb) (step nb memo lex hf) s -> step nb memo lex hf s a = Some (s', es) ->
  (g_abs (sm s') = g_abs (sm s) /\ g_lin (sm s') = g_lin (sm s)) \/
  (exists t g n v b h key sv cur, a = Step t /\ th s t = E2 g n v b h key sv cur /\
     lookup key (g_abs (sm s)) = None /\ g_abs (sm s') = (key, v) :: g_abs (sm s) /\
     g_lin (sm s') = g_lin (sm s) ++ [LIns t key v n]) \/
  (exists t cur it, a = Step t /\
     ((exists b h key sv nx, th s t = D1 b h key sv cur nx /\ it = false) \/
      (exists nx, th s t = X2 nx /\ cur = it_cur (its s t) /\ it = true)) /\
     nmark (sm s) cur = false /\ nmark (sm s') cur = true /\ In cur (chain (sm s) (bk nb hf (sm s) cur)) /\
     lookup (nkey (sm s) cur) (g_abs (sm s)) = Some (nval (sm s) cur) /\
     g_abs (sm s') = remk (nkey (sm s) cur) (g_abs (sm s)) /\
     g_lin (sm s') = g_lin (sm s) ++ [LDel t (nkey (sm s) cur) cur it]).
Proof. exact hmm_abs_step. Qed.
Print Assumptions C08_hmm_abs_step.

(** keys, values, stored hashes never change; marks and the next pointers of marked nodes are frozen *)
Theorem C08_hmm_frozen_step : forall nb memo lex hf s a s' es,
  reach (init nb) (step nb memo lex hf) s -> step nb memo lex hf s a = Some (s', es) ->
  nalloc (sm s) <= nalloc (sm s') /\
  (forall x, In x (g_retired (sm s)) -> In x (g_retired (sm s'))) /\
  forall x, (x < nalloc (sm s) -> nkey (sm s') x = nkey (sm s) x /\ nval (sm s') x = nval (sm s) x /\ nhash (sm s') x = nhash (sm s) x) /\
            (nmark (sm s) x = true -> nmark (sm s') x = true /\ nnext (sm s') x = nnext (sm s) x).
Proof. exact hmm_frozen_step. Qed.
Print Assumptions C08_hmm_frozen_step.

(** MAIN THEOREM: every call of a map operation returns the answer of the sequential map for the abstract map of a state
    strictly inside the call *)
Theorem C08_hmm_call_linearizable : forall nb memo lex hf u o s0 s a s' es r,
  reach (init nb) (step nb memo lex hf) s0 -> map_op o = true -> in_call nb memo lex hf u o s0 s ->
  step nb memo lex hf s a = Some (s', es) -> In (ERet u r) es ->
  exists b v s1, r = ret_enc o b v /\ in_call nb memo lex hf u o s0 s1 /\ reach_from (step nb memo lex hf) s1 s' /\
    (b, v) = res_for o (lookup (op_key o) (g_abs (sm s1))).
Proof. exact hmm_call_linearizable. Qed.
Print Assumptions C08_hmm_call_linearizable.

(** OPTIONS DO NOT CHANGE THE BEHAVIOUR: for any two configurations (bucket count, memoization, ordering predicate, hash
    function), equal sequences of successful insert / erase effects give equal abstract maps (and the results are
    [res_for] of that map in both) *)
Theorem C08_hmm_options_irrelevant : forall nb memo lex hf nb' memo' lex' hf' s s',
  reach (init nb) (step nb memo lex hf) s -> reach (init nb') (step nb' memo' lex' hf') s' ->
  map lev_eff (g_lin (sm s)) = map lev_eff (g_lin (sm s')) -> g_abs (sm s) = g_abs (sm s').
Proof. exact hmm_options_irrelevant. Qed.
Print Assumptions C08_hmm_options_irrelevant.

(** non-vacuity: concrete reachable states *)
Theorem C08_hmm_nonvacuous_buckets :
  let st := st_of 2 true true hf_mod2 ex_ins in
  chain (sm st) 0 = [1; 3] /\ chain (sm st) 1 = [2] /\ g_abs (sm st) = [(20, 200); (15, 150); (10, 100)] /\
  g_lin (sm st) = [LIns 1 10 100 1; LIns 1 15 150 2; LIns 1 20 200 3].
Proof. exact ex_ins_buckets. Qed.
Print Assumptions C08_hmm_nonvacuous_buckets.

Theorem C08_hmm_nonvacuous_order :
  let st := st_of 1 true true hf_rev ex_ins in let st' := st_of 1 true false hf_rev ex_ins in
  map (nkey (sm st)) (chain (sm st) 0) = [20; 15; 10] /\ map (nkey (sm st')) (chain (sm st') 0) = [10; 15; 20] /\
  g_abs (sm st) = g_abs (sm st') /\ g_abs (sm st) = g_abs (sm (st_of 4 false true hf_id ex_ins)).
Proof. exact ex_ins_order. Qed.
Print Assumptions C08_hmm_nonvacuous_order.

Theorem C08_hmm_nonvacuous_marked :
  let st := st_of 2 true true hf_mod2 ex_marked in
  chain (sm st) 0 = [1; 3] /\ map (nmark (sm st)) (chain (sm st) 0) = [false; true] /\
  g_abs (sm st) = [(15, 150); (10, 100)] /\ g_retired (sm st) = [] /\
  th st 2%nat = D2 0 0 20 1 3 0 /\ pending (th st 2%nat) = [MD 20] /\
  proj_lin 2 (g_lin (sm st)) = [MD 20] /\ proj_hist 2 (g_hist st) = [].
Proof. exact ex_marked_state. Qed.
Print Assumptions C08_hmm_nonvacuous_marked.

Theorem C08_hmm_nonvacuous_race :
  let st := st_of 1 false true hf_id ex_race_del in
  chain (sm st) 0 = [] /\ g_abs (sm st) = [] /\ g_retired (sm st) = [1] /\
  g_lin (sm st) = [LIns 1 5 50 1; LDel 2 5 1 false] /\
  g_hist st = [mkH 1 (OIns 5 50) true 0 (Some None); mkH 3 (ODel 5) false 0 (Some None);
               mkH 2 (ODel 5) true 0 (Some (Some 50))].
Proof. exact ex_race_del_state. Qed.
Print Assumptions C08_hmm_nonvacuous_race.

Theorem C08_hmm_nonvacuous_values :
  let st := st_of 4 true true hf_rev ex_getins in
  g_abs (sm st) = [(20, 200); (10, 100)] /\
  g_hist st = [mkH 1 (OIns 10 100) true 0 (Some None); mkH 2 (OGet 10 999) false 100 (Some (Some 100));
               mkH 2 (OGet 20 200) true 200 (Some None); mkH 1 (OFind 20) true 200 (Some (Some 200))].
Proof. exact ex_getins_state. Qed.
Print Assumptions C08_hmm_nonvacuous_values.
