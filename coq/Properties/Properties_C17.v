(** C17 - dynamic threads: the per-thread record list (thread_block_list) - property theorems (statements only).
    Model: Model/TblDefs.v (tied to xenium/reclamation/detail/thread_block_list.hpp by trace correspondence,
    harness/h_tbl.cpp); proofs: Proof/TblInv.v. *)
From Coq Require Import NArith List Bool Arith.
From XV Require Import Conc.Lts Conc.Ev Conc.Solo Model.TblDefs Proof.TblInv.
Import ListNotations.

(** an entry is never owned by two threads; the entry a thread holds is owned by it and is not free *)
Theorem C17_tbl_exclusive_owner : forall st,
  reach init step st ->
  (forall t, owned st t <> 0 ->
     g_owner st (owned st t) = Some t /\ (est st (owned st t) = 1 \/ est st (owned st t) = 2) /\ 1 <= owned st t <= nent st) /\
  (forall t1 t2, owned st t1 <> 0 -> owned st t1 = owned st t2 -> t1 = t2) /\
  (forall e t, g_owner st e = Some t -> (est st e = 1 \/ est st e = 2) /\ 1 <= e <= nent st) /\
  (forall e, est st e = 0 <-> g_owner st e = None).
Proof. exact tbl_exclusive_owner. Qed.
Print Assumptions C17_tbl_exclusive_owner.

(** the list from head: duplicate free, exactly the created entries that are not still being inserted *)
Theorem C17_tbl_list_wf : forall st,
  reach init step st ->
  exists l, chain (nxt st) (head st) l /\ NoDup l /\ length l = g_nlinked st /\
    (forall e, In e l <-> 1 <= g_rank st e) /\
    (forall e, In e l <-> (1 <= e <= nent st /\ forall t, pend_entry (th st t) <> e)).
Proof. exact tbl_list_wf. Qed.
Print Assumptions C17_tbl_list_wf.

Theorem C17_tbl_list_complete : forall st,
  reach init step st -> (forall t, pend_entry (th st t) = 0) ->
  exists l, chain (nxt st) (head st) l /\ NoDup l /\ length l = nent st /\ (forall e, In e l <-> 1 <= e <= nent st).
Proof. exact tbl_list_complete. Qed.
Print Assumptions C17_tbl_list_complete.

(** entries are never removed, next pointers of linked entries never change *)
Theorem C17_tbl_entries_never_removed : forall st a st' es l,
  reach init step st -> step st a = Some (st', es) -> chain (nxt st) (head st) l ->
  (forall e, In e l -> nxt st' e = nxt st e) /\
  (chain (nxt st') (head st') l \/ exists n, ~ In n l /\ chain (nxt st') (head st') (n :: l)) /\
  nent st <= nent st'.
Proof. exact tbl_entries_never_removed. Qed.
Print Assumptions C17_tbl_entries_never_removed.

(** g_live counts the threads that hold an entry or are inside an acquire; g_peak dominates it *)
Theorem C17_tbl_live_char : forall st,
  reach init step st ->
  g_live st = length (g_threads st) /\ NoDup (g_threads st) /\ g_live st <= g_peak st /\
  (forall t, In t (g_threads st) <-> (owned st t <> 0 \/ acquiring (th st t))).
Proof. exact tbl_live_char. Qed.
Print Assumptions C17_tbl_live_char.

(** per-thread bookkeeping is bounded by the peak number of simultaneously live threads *)
Theorem C17_tbl_bounded_by_peak : forall st, reach init step st -> nent st <= g_peak st.
Proof. exact tbl_bounded_by_peak. Qed.
Print Assumptions C17_tbl_bounded_by_peak.

Theorem C17_tbl_depth_bound : forall st t c,
  reach init step st -> In t (g_threads st) -> cur st t = Some c ->
  (g_nlinked st - g_rank st c) + npend st + 1 <= g_peak st /\ nent st = g_nlinked st + npend st.
Proof. exact tbl_depth_bound. Qed.
Print Assumptions C17_tbl_depth_bound.

(** stronger natural statements are false (counterexample schedules checked by computation) *)
Theorem C17_tbl_create_only_if_all_busy_refuted :
  ~ (forall st a st' es, reach init step st -> step st a = Some (st', es) -> nent st' = S (nent st) ->
       forall e, 1 <= e <= nent st -> est st e <> 0).
Proof. exact tbl_create_only_if_all_busy_refuted. Qed.
Print Assumptions C17_tbl_create_only_if_all_busy_refuted.

Theorem C17_tbl_bounded_by_current_live_refuted :
  ~ (forall st a st' es, reach init step st -> step st a = Some (st', es) -> nent st' = S (nent st) -> nent st' <= g_live st').
Proof. exact tbl_bounded_by_current_live_refuted. Qed.
Print Assumptions C17_tbl_bounded_by_current_live_refuted.

Theorem C17_tbl_bounded_by_peak_owned_refuted :
  ~ (forall acts, nent (final acts) <= fold_right Nat.max 0 (map busy (states_of acts))).
Proof. exact tbl_bounded_by_peak_owned_refuted. Qed.
Print Assumptions C17_tbl_bounded_by_peak_owned_refuted.

(** records of exited threads are reused *)
Theorem C17_tbl_reuse : forall st t,
  reach init step st ->
  (th st t = Begin OAcquire \/ th st t = Begin OAcquireInactive \/ exists ini, th st t = W0 ini) ->
  (exists e, 1 <= e <= nent st /\ est st e = 0) ->
  exists n st', n <= 2 * nent st + 5 /\ solo_steps step Step idle t n st st' /\
    th st' t = Idle /\ nent st' = nent st /\ 1 <= owned st' t <= nent st /\
    g_owner st' (owned st' t) = Some t.
Proof. exact tbl_reuse. Qed.
Print Assumptions C17_tbl_reuse.

(** solo termination (used by C16) *)
Theorem C17_tbl_solo : forall st t,
  reach init step st -> finishes_within step Step idle t (tbl_mu st t) st.
Proof. exact tbl_solo. Qed.
Print Assumptions C17_tbl_solo.

Theorem C17_tbl_acquire_solo_terminates : forall st t,
  reach init step st ->
  finishes_within step Step idle t (2 * nent st + 5) st /\
  (th st t = R1 \/ th st t = V1 -> finishes_within step Step idle t 1 st) /\
  (th st t = Begin ORelease \/ th st t = Begin OActivate -> finishes_within step Step idle t 2 st).
Proof. exact tbl_acquire_solo_terminates. Qed.
Print Assumptions C17_tbl_acquire_solo_terminates.
