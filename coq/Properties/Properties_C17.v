(** C17 - dynamic threads: property theorems (statements only). *)
From Coq Require Import NArith List Bool.
Local Open Scope N_scope.
(** placeholder obligation (the thread_block_list model replaces it) *)
Theorem C17_reuse_bound : forall live peak created : N, live <= peak -> peak <= created -> live <= created.
Proof. intros. eapply N.le_trans; eauto. Qed.
Print Assumptions C17_reuse_bound.
