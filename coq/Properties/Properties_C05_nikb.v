(** C05 (the nikolaev_bounded_queue part) and the ring invariants behind it: property theorems over the
    step-level model Model/NikbDefs.v (statements only; proofs in Proof/Nikb*.v).

    Model: two nikolaev_scq index rings (allocated ring [RA], free ring [RF]) + the storage array;
    one [Step] = one atomic access of the C++ code; capacity 2^k (k <= 40), pop_retries R; any number of
    threads, any program, any schedule (sequentially consistent interleavings).  Hypothesis
    [g_ovf s = false]: no head / tail counter has reached 2^62 and no threshold has gone below -2^62.

    Ghosts: [g_eq r T] / [g_dq r H] fate of enqueue / dequeue ticket (= counter / 2) of ring r;
    [g_own i] where storage index i is; [g_in] (ticket, value) published in RA (successful entry CAS of
    try_push); [g_out] (ticket, value) taken out of RA (fetch_or of try_pop); [g_ok] / [g_ret] what the calls
    returned.  [slot k s q T] = the entry word in the slot of ticket T of ring q; [eidx] / [ecyc] its index /
    cycle field; [hidx p] = (ring, index) when program point p is inside an enqueue that has not published yet
    (the only program points that access the storage cell); [dtk p] = (ring, head word) when p is inside the
    do-loop of a dequeue.

    HISTORY: the code had a defect (nikolaev_scq::dequeue set the is_safe flag again when it advanced an empty slot,
    enqueue wrote entries with the flag cleared): an accepted value could be lost and the capacity could shrink.  It
    was found with this model, reproduced on the real code and REPAIRED in the repository (commit ccd976e).  [step]
    is the repaired code and all theorems below are about it; [step_old] is the code before the repair and occurs
    only in the three [_refuted] witnesses, which document the defect (schedules of capacity 2, 4 threads, replayed
    line by line by the unrepaired code). *)
From Coq Require Import NArith List Bool Permutation.
From XV Require Import Base.Word Conc.Lts Conc.Ev Conc.Solo gen.ScqGen Model.NikbDefs.
From XV Require Import Proof.NikbArith Proof.NikbBase Proof.NikbWf Proof.NikbOwn Proof.NikbVal Proof.NikbSafe Proof.NikbCons Proof.NikbSolo Proof.NikbExamples.
Import ListNotations.
Local Open Scope N_scope.

(** ** the repaired defect (statements about [step_old], the code before the repair) *)

(** an index published in the allocated ring at a ticket whose dequeue ticket had been given up *)
Theorem C05_nikb_lost_value_refuted :
  ~ (forall st, reach (init 2) (step_old 2 0) st -> g_ovf st = false -> forall T, ~ stranded (ra st) T).
Proof. exact nikb_never_stranded_refuted. Qed.
Print Assumptions C05_nikb_lost_value_refuted.

(** push 7 returned true, nothing is in progress, three try_pop calls run one after the other and answer
    'empty' ([3]); in every state of these calls index 1 is in the allocated ring with value 7 in its cell *)
Theorem C05_nikb_empty_verdict_refuted :
  let s1 := st_old 2 0 lost_acts in
  let r := run (step_old 2 0) s1 lost_after in
  reach (init 2) (step_old 2 0) s1 /\ (forall t, th s1 t = Idle) /\ In (8, 7) (g_ok s1) /\ ~ In (8, 7) (g_out s1) /\
  snd r = 0%nat /\ rets (snd (fst r)) = [(4, [3]); (3, [3]); (1, [3])] /\ g_ovf (fst (fst r)) = false /\
  (forall s, In s (states_along (step_old 2 0) s1 lost_after) ->
     g_own s 1 = OFull 8 /\ store s 1 = 7 /\ g_eq (ra s) 8 = EPub 1 /\ g_out s = g_out s1).
Proof. exact nikb_empty_verdict_refuted. Qed.
Print Assumptions C05_nikb_empty_verdict_refuted.

(** one value in a queue of capacity 2, nothing in progress: try_push answers 'full' ([0]); after a pop the queue
    accepts one value and is 'full' again: index 1 is stranded in the free ring *)
Theorem C05_nikb_full_verdict_refuted :
  let s1 := st_old 2 0 full_acts in
  let r := run (step_old 2 0) s1 full_after in
  reach (init 2) (step_old 2 0) s1 /\ (forall t, th s1 t = Idle) /\ g_ovf s1 = false /\
  length (g_in s1) = 7%nat /\ length (g_out s1) = 6%nat /\
  snd r = 0%nat /\ rets (snd (fst r)) = [(4, [0]); (4, [1; 100]); (4, [1]); (4, [0])] /\ g_ovf (fst (fst r)) = false /\
  stranded (rf s1) 8.
Proof. exact nikb_full_verdict_refuted. Qed.
Print Assumptions C05_nikb_full_verdict_refuted.

(** ** ring invariants (repaired code, as everything below) *)

(** words: counters even and below 2^62, thresholds in [-2^62, 3*capacity), entries = (cycle, safe, index) with
    index < capacity or bottom; local copies are handed-out tickets *)
Theorem C05_nikb_words : forall k R, k <= 40 -> forall s, reach (init (2 ^ k)) (step (2 ^ k) R) s -> g_ovf s = false ->
  Inv1 k s.
Proof. exact Inv1_reach. Qed.
Print Assumptions C05_nikb_words.

(** tickets, slots, ownership (record [RI]: fates of tickets below head / tail, a held ticket has exactly one holder,
    a slot holding an index holds it for exactly one published and not yet taken ticket of its cycle, ...) *)
Theorem C05_nikb_tickets_slots : forall k R, k <= 40 -> forall s, reach (init (2 ^ k)) (step (2 ^ k) R) s -> g_ovf s = false ->
  Inv1 k s /\ Inv2 k s.
Proof. exact Inv12_reach. Qed.
Print Assumptions C05_nikb_tickets_slots.

(** the is_safe flag: local entry copies are never newer than the slot, a slot left behind by a dequeuer with an older
    cycle is unsafe, an enqueuer that writes into an unsafe slot has seen head <= its ticket and since then no dequeuer
    of that slot with a ticket >= its own has left without changing the slot word; no ticket is published and given up *)
Theorem C05_nikb_safe_flag : forall k R, k <= 40 -> forall s, reach (init (2 ^ k)) (step (2 ^ k) R) s -> g_ovf s = false ->
  Inv4 k s.
Proof. exact Inv4_reach. Qed.
Print Assumptions C05_nikb_safe_flag.

(** NO STRANDING (no loss): an index is never published with a ticket whose dequeue ticket was given up *)
Theorem C05_nikb_never_stranded : forall k R, k <= 40 -> forall s, reach (init (2 ^ k)) (step (2 ^ k) R) s -> g_ovf s = false ->
  forall q T, ~ stranded (rg s q) T.
Proof. exact c_never_stranded. Qed.
Print Assumptions C05_nikb_never_stranded.

(** a published index has been taken, or an operation in progress holds its dequeue ticket inside its do-loop, or it is
    still in its slot and head has not reached its ticket (a future dequeue ticket will) *)
Theorem C05_nikb_published_fate : forall k R, k <= 40 -> forall s, reach (init (2 ^ k)) (step (2 ^ k) R) s -> g_ovf s = false ->
  forall q T i, g_eq (rg s q) T = EPub i ->
    g_dq (rg s q) T = DTaken i \/
    (exists u, g_dq (rg s q) T = DHeld u /\ dtk (th s u) = Some (q, 2 * T)) \/
    (g_dq (rg s q) T = DNone /\ rhead (rg s q) <= 2 * T /\ eidx k (slot k s q T) = i /\ ecyc k (slot k s q T) = T / nn (2 ^ k)).
Proof. exact c_published_fate. Qed.
Print Assumptions C05_nikb_published_fate.

(** ** index conservation *)

(** every storage index is in exactly one place, and [g_own] names it: a slot of the free ring, a slot of the
    allocated ring (published, not taken), or held by one thread between its dequeue and its enqueue *)
Theorem C05_nikb_index_place : forall k R, k <= 40 -> forall s, reach (init (2 ^ k)) (step (2 ^ k) R) s -> g_ovf s = false ->
  forall i, i < 2 ^ k ->
    match g_own s i with
    | OFree T => 2 * T < 2 ^ 62 /\ eidx k (slot k s RF T) = i /\ ecyc k (slot k s RF T) = T / nn (2 ^ k) /\
                 g_eq (rf s) T = EPub i /\ (forall j, g_dq (rf s) T <> DTaken j)
    | OFull T => 2 * T < 2 ^ 62 /\ eidx k (slot k s RA T) = i /\ ecyc k (slot k s RA T) = T / nn (2 ^ k) /\
                 g_eq (ra s) T = EPub i /\ (forall j, g_dq (ra s) T <> DTaken j)
    | OWrite t => hidx (th s t) = Some (RA, i)
    | ORead t => hidx (th s t) = Some (RF, i)
    end.
Proof. exact c_index_place. Qed.
Print Assumptions C05_nikb_index_place.

(** nothing else has it: a slot containing an index (for the ticket of its cycle) is the recorded place *)
Theorem C05_nikb_slot_owner : forall k R, k <= 40 -> forall s, reach (init (2 ^ k)) (step (2 ^ k) R) s -> g_ovf s = false ->
  forall q T, 2 * T < 2 ^ 62 -> eidx k (slot k s q T) < 2 ^ k -> ecyc k (slot k s q T) = T / nn (2 ^ k) ->
    g_own s (eidx k (slot k s q T)) = inring q T.
Proof. exact c_slot_owner. Qed.
Print Assumptions C05_nikb_slot_owner.

(** array form: an entry of a ring's array that holds an index is the slot of exactly one ticket, the recorded one;
    no index occurs twice in the two arrays *)
Theorem C05_nikb_array_entry_owner : forall k R, k <= 40 -> forall s, reach (init (2 ^ k)) (step (2 ^ k) R) s -> g_ovf s = false ->
  forall q j, j < nn (2 ^ k) -> eidx k (rdata (rg s q) j) < 2 ^ k ->
    exists T, 2 * T < 2 ^ 62 /\ phys (2 ^ k) (2 * T) = j /\ g_own s (eidx k (rdata (rg s q) j)) = inring q T.
Proof. exact c_array_entry_owner. Qed.
Print Assumptions C05_nikb_array_entry_owner.

Theorem C05_nikb_array_no_duplicate : forall k R, k <= 40 -> forall s, reach (init (2 ^ k)) (step (2 ^ k) R) s -> g_ovf s = false ->
  forall q j q' j', j < nn (2 ^ k) -> j' < nn (2 ^ k) -> eidx k (rdata (rg s q) j) < 2 ^ k ->
    eidx k (rdata (rg s q') j') = eidx k (rdata (rg s q) j) -> q' = q /\ j' = j.
Proof. exact c_array_no_duplicate. Qed.
Print Assumptions C05_nikb_array_no_duplicate.

(** a thread at a program point that accesses cell i holds i; two threads never access the same cell at once; a held
    index is in no slot *)
Theorem C05_nikb_holder_owner : forall k R, k <= 40 -> forall s, reach (init (2 ^ k)) (step (2 ^ k) R) s -> g_ovf s = false ->
  forall t q i, hidx (th s t) = Some (q, i) -> g_own s i = held q t /\ i < 2 ^ k.
Proof. exact c_holder_owner. Qed.
Print Assumptions C05_nikb_holder_owner.

Theorem C05_nikb_exclusive_cell : forall k R, k <= 40 -> forall s, reach (init (2 ^ k)) (step (2 ^ k) R) s -> g_ovf s = false ->
  forall t1 t2 q1 q2 i, hidx (th s t1) = Some (q1, i) -> hidx (th s t2) = Some (q2, i) -> t1 = t2 /\ q1 = q2.
Proof. exact c_exclusive_cell. Qed.
Print Assumptions C05_nikb_exclusive_cell.

Theorem C05_nikb_held_not_in_ring : forall k R, k <= 40 -> forall s, reach (init (2 ^ k)) (step (2 ^ k) R) s -> g_ovf s = false ->
  forall t q i q' T, hidx (th s t) = Some (q, i) -> 2 * T < 2 ^ 62 ->
    ecyc k (slot k s q' T) = T / nn (2 ^ k) -> eidx k (slot k s q' T) <> i.
Proof. exact c_held_not_in_ring. Qed.
Print Assumptions C05_nikb_held_not_in_ring.

(** ** value conservation *)

(** tickets are unique in every list; what is taken was published (same ticket, same value); what try_push reported
    as accepted was published; what try_pop returned was taken: no value is invented or returned twice *)
Theorem C05_nikb_values : forall k R, k <= 40 -> forall s, reach (init (2 ^ k)) (step (2 ^ k) R) s -> g_ovf s = false ->
  NoDup (map fst (g_in s)) /\ NoDup (map fst (g_out s)) /\ incl (g_out s) (g_in s) /\
  NoDup (map fst (g_ok s)) /\ incl (g_ok s) (g_in s) /\
  NoDup (map fst (g_ret s)) /\ incl (g_ret s) (g_out s).
Proof. exact c_values. Qed.
Print Assumptions C05_nikb_values.

(** in EVERY state: a published value has been taken, or it is still in the cell whose index is in the allocated
    ring at its ticket (where, by [C05_nikb_published_fate], a pop in progress is taking it or a future dequeue ticket
    reaches it); conversely the cell of an index in the allocated ring holds a published, not yet taken value *)
Theorem C05_nikb_published_taken_or_in_ring : forall k R, k <= 40 -> forall s, reach (init (2 ^ k)) (step (2 ^ k) R) s -> g_ovf s = false ->
  forall T v, In (T, v) (g_in s) ->
    In (T, v) (g_out s) \/ exists i, i < 2 ^ k /\ g_own s i = OFull T /\ store s i = v.
Proof. exact c_published_taken_or_in_ring. Qed.
Print Assumptions C05_nikb_published_taken_or_in_ring.

Theorem C05_nikb_in_ring_published : forall k R, k <= 40 -> forall s, reach (init (2 ^ k)) (step (2 ^ k) R) s -> g_ovf s = false ->
  forall i T, i < 2 ^ k -> g_own s i = OFull T -> In (T, store s i) (g_in s) /\ forall v, ~ In (T, v) (g_out s).
Proof. exact c_in_ring_published. Qed.
Print Assumptions C05_nikb_in_ring_published.

(** as one equation between multisets of (ticket, value), in EVERY state (in particular at quiescence):
    published = taken + the cells whose index is in the allocated ring ([ring_pairs], with their tickets = ring order) *)
Theorem C05_nikb_published_eq_taken_plus_ring : forall k R, k <= 40 -> forall s, reach (init (2 ^ k)) (step (2 ^ k) R) s -> g_ovf s = false ->
  Permutation (g_in s) (g_out s ++ ring_pairs k s).
Proof. exact c_published_eq_taken_plus_ring. Qed.
Print Assumptions C05_nikb_published_eq_taken_plus_ring.

(** ** FIFO = ticket order of the allocated ring *)

(** the try_pop that takes ticket H gets the value that was published with ticket H *)
Theorem C05_nikb_fifo_by_ticket : forall k R, k <= 40 -> forall s, reach (init (2 ^ k)) (step (2 ^ k) R) s -> g_ovf s = false ->
  forall H v, In (H, v) (g_out s) ->
    In (H, v) (g_in s) /\ (forall w, In (H, w) (g_in s) -> w = v) /\ (forall w, In (H, w) (g_out s) -> w = v).
Proof. exact c_fifo_by_ticket. Qed.
Print Assumptions C05_nikb_fifo_by_ticket.

(** no overtaking: when ticket T2 has been taken, a published smaller ticket T1 has been taken or a try_pop in progress
    holds dequeue ticket T1 inside its do-loop (its call overlaps; it is linearized first) *)
Theorem C05_nikb_fifo_order : forall k R, k <= 40 -> forall s, reach (init (2 ^ k)) (step (2 ^ k) R) s -> g_ovf s = false ->
  forall T1 v1 T2 v2, In (T1, v1) (g_in s) -> In (T2, v2) (g_out s) -> T1 < T2 ->
    In (T1, v1) (g_out s) \/
    (exists u, g_dq (ra s) T1 = DHeld u /\ dtk (th s u) = Some (RA, 2 * T1)).
Proof. exact c_fifo_order. Qed.
Print Assumptions C05_nikb_fifo_order.

(** tickets respect real time: published tickets are below tail, taken tickets below head (an operation that starts
    later obtains a larger ticket from the fetch_add) *)
Theorem C05_nikb_ticket_below_counter : forall k R, k <= 40 -> forall s, reach (init (2 ^ k)) (step (2 ^ k) R) s -> g_ovf s = false ->
  (forall T v, In (T, v) (g_in s) -> 2 * T + 2 <= rtail (ra s)) /\
  (forall H v, In (H, v) (g_out s) -> 2 * H + 2 <= rhead (ra s)).
Proof. exact c_ticket_below_counter. Qed.
Print Assumptions C05_nikb_ticket_below_counter.

(** ** verdicts *)

(** a failing answer ('full' = [0] from the free ring, 'empty' = [3] from the allocated ring) is given at the first
    threshold test (threshold < 0), at the threshold decrement in the loop (old value <= 0), or after the final check
    of tail against the thread's own ticket (program point D6 -> catchup C1 / C2 -> D8) *)
Theorem C05_nikb_fail_sources : forall k R, k <= 40 -> forall s u s' es r, step (2 ^ k) R s (Step u) = Some (s', es) -> In (ERet u r) es -> r = [0] \/ r = [3] ->
  exists q x, r = match q with RF => [0] | RA => [3] end /\
    ((th s u = D0 q x /\ lt0 (rthr (rg s q)) = true) \/
     (th s u = D7 q x /\ sle 64 (rthr (rg s q)) 0 = true) \/
     th s u = D8 q x).
Proof. exact nikb_fail_sources. Qed.
Print Assumptions C05_nikb_fail_sources.

Theorem C05_nikb_fail_path : forall k R, k <= 40 -> forall s u s' es, step (2 ^ k) R s (Step u) = Some (s', es) ->
  (forall q x, th s' u = D8 q x -> (exists tl hd, th s u = NikbDefs.C1 q x tl hd) \/ (exists tl, th s u = NikbDefs.C2 q x tl)) /\
  (forall q x tl, th s' u = NikbDefs.C2 q x tl -> exists tl0 hd, th s u = NikbDefs.C1 q x tl0 hd) /\
  (forall q x tl hd, th s' u = NikbDefs.C1 q x tl hd ->
     (exists hd0, th s u = D6 q x hd0 /\ hd = wadd 64 hd0 2 /\ tl = rtail (rg s q) /\ gt0 (diff tl hd) = false) \/
     (th s u = NikbDefs.C2 q x tl /\ hd = rhead (rg s q))).
Proof. exact nikb_fail_path. Qed.
Print Assumptions C05_nikb_fail_path.

(** what the final check sees (ring q, thread u with given-up ticket hd, at the instant of its load of tail):
    tail <= head; every index published in the ring has a ticket below head: it has been taken, or an operation in
    progress holds that dequeue ticket inside its do-loop *)
Theorem C05_nikb_final_check : forall k R, k <= 40 -> forall s, reach (init (2 ^ k)) (step (2 ^ k) R) s -> g_ovf s = false ->
  forall u q x hd, th s u = D6 q x hd -> gt0 (diff (rtail (rg s q)) (wadd 64 hd 2)) = false ->
    rtail (rg s q) <= hd + 2 /\ hd + 2 <= rhead (rg s q) /\
    forall T i, g_eq (rg s q) T = EPub i ->
      2 * T + 2 <= rhead (rg s q) /\
      (g_dq (rg s q) T = DTaken i \/
       (exists u', g_dq (rg s q) T = DHeld u' /\ dtk (th s u') = Some (q, 2 * T))).
Proof. exact c_final_check. Qed.
Print Assumptions C05_nikb_final_check.

(** C05 'empty' for the answers given after the final check: at that instant of the call every published value has
    been taken or is being taken by a try_pop in progress -- the queue is empty, counting the operations in progress.
    For the two threshold answers (D0: threshold < 0, D7: old threshold <= 0, see [C05_nikb_fail_sources]) the statement
    is FALSE when the number of threads is unbounded ([C05_nikb_threshold_empty_refuted]) and NOT PROVED under a bound on
    the number of threads (the 3n-1 argument of the SCQ paper). *)
Theorem C05_nikb_empty_final_check : forall k R, k <= 40 -> forall s, reach (init (2 ^ k)) (step (2 ^ k) R) s -> g_ovf s = false ->
  forall u x hd, th s u = D6 RA x hd -> gt0 (diff (rtail (ra s)) (wadd 64 hd 2)) = false ->
    forall T v, In (T, v) (g_in s) ->
      In (T, v) (g_out s) \/ (exists u', g_dq (ra s) T = DHeld u' /\ dtk (th s u') = Some (RA, 2 * T)).
Proof. exact c_empty_final_check. Qed.
Print Assumptions C05_nikb_empty_final_check.

(** C05 'full' for the answers given after the final check: at that instant every storage index is in the allocated
    ring, or held by an operation in progress (being written / being read), or being taken out of the free ring by a
    try_push in progress -- the queue is full, counting every other operation in progress as occupying one slot.
    NOT PROVED for the two threshold answers (as above). *)
Theorem C05_nikb_full_final_check : forall k R, k <= 40 -> forall s, reach (init (2 ^ k)) (step (2 ^ k) R) s -> g_ovf s = false ->
  forall u x hd, th s u = D6 RF x hd -> gt0 (diff (rtail (rf s)) (wadd 64 hd 2)) = false ->
    forall i, i < 2 ^ k ->
      match g_own s i with
      | OFull _ => True
      | OWrite t => hidx (th s t) = Some (RA, i)
      | ORead t => hidx (th s t) = Some (RF, i)
      | OFree T => exists u', g_dq (rf s) T = DHeld u' /\ dtk (th s u') = Some (RF, 2 * T)
      end.
Proof. exact c_full_final_check. Qed.
Print Assumptions C05_nikb_full_final_check.

(** the two threshold answers are NOT exact without a bound on the number of threads (FULL statement "a failing try_pop
    saw an empty queue, counting the operations in progress" is FALSE for the D0 path): capacity 2, 8 threads, repaired
    code; six pops delayed right before their threshold decrement, a push publishes 7, the six decrements bring the
    threshold from 5 to -1; the state is quiescent, 7 is published with ticket 7, its dequeue ticket has not been handed
    out, and two consecutive try_pop answer 'empty' ([3]) after a single load.  Replayed by the repaired real code.
    This is inherent in SCQ (the paper assumes #threads <= capacity); the repository documents that bound only for
    lock-freedom.  Not proved: exactness of the threshold answers under such a bound. *)
Theorem C05_nikb_threshold_empty_refuted :
  let s1 := st_of 2 0 thr8_acts in
  let r := run (step 2 0) s1 (opn 8 pop 2 ++ opn 8 pop 2) in
  reach (init 2) (step 2 0) s1 /\ sk_of 2 0 thr8_acts = 0%nat /\ g_ovf s1 = false /\ (forall t, th s1 t = Idle) /\
  g_ok s1 = [(0, 1); (7, 7)] /\ g_out s1 = [(0, 1)] /\
  g_eq (ra s1) 7 = EPub 1 /\ g_dq (ra s1) 7 = DNone /\ rhead (ra s1) = 14 /\ rtail (ra s1) = 16 /\ rthr (ra s1) = ones64 /\
  snd r = 0%nat /\ rets (snd (fst r)) = [(8, [3]); (8, [3])].
Proof. exact nikb_threshold_empty_refuted. Qed.
Print Assumptions C05_nikb_threshold_empty_refuted.

(** ** C16: solo termination with an explicit bound *)

(** from every reachable wrap-free state (other threads stopped anywhere), with head room for the run ([room]: both
    head / tail counters + 2B + 2*capacity + 4 below 2^62, thresholds at least B above -2^62), thread u finishes its
    try_push / try_pop within [nikb_bound] of its own steps:
      (2R + 14) * 3*capacity                        (dequeue: <= 3*capacity passes, threshold decrement per pass)
      + 10 * ((head-tail)/2 of both rings + capacity)  (enqueue: tickets behind head, then at most capacity-1 occupied slots)
      + 18 *)
Theorem C05_nikb_solo_bound_value : forall k R, k <= 40 -> forall s,
  nikb_bound k R s = ((2 * N.to_nat R + 14) * (3 * N.to_nat (2 ^ k)) + 10 * (gap s RA + gap s RF + N.to_nat (2 ^ k)) + 18)%nat.
Proof. exact nikb_bound_value. Qed.
Print Assumptions C05_nikb_solo_bound_value.

Theorem C05_nikb_solo : forall k R, k <= 40 -> forall u s, reach (init (2 ^ k)) (step (2 ^ k) R) s -> g_ovf s = false ->
  room k s (nikb_bound k R s) -> finishes_within (step (2 ^ k) R) Step idle u (nikb_bound k R s) s.
Proof. exact nikb_solo_bound_thm. Qed.
Print Assumptions C05_nikb_solo.

(** the measure itself (W * passes left + position in the loop + bound of the following enqueue) *)
Theorem C05_nikb_solo_measure : forall k R, k <= 40 -> forall u s, reach (init (2 ^ k)) (step (2 ^ k) R) s -> g_ovf s = false ->
  room k s (mu k R u s) -> finishes_within (step (2 ^ k) R) Step idle u (mu k R u s) s.
Proof. exact nikb_solo_thm. Qed.
Print Assumptions C05_nikb_solo_measure.
