(** C08 - harris_michael_list_based_set is a linearizable set: property theorems (statements only; the
    proofs live in Proof/HmlInv.v).  [HmlDefs] is the step-level model of
    harris_michael_list_based_set<long, reclaimer<GC>> (find with helping, emplace_or_get, erase(key),
    contains), tied to the code by trace correspondence (driver instance [hml], harness h_hm with
    -DXV_RECL=GC).  [reach init step st] quantifies over any number of threads, any program, any schedule.

    Vocabulary: node 0 is the sentinel whose next field is [head]; [chain st] = nodes reachable from
    [head]; [abs_keys st] = keys of the unmarked nodes of the chain; ghosts [g_abs] (abstract set,
    updated at the linearization points of the mutators), [g_lin] (successful mutators in linearization
    order), [g_lp t] (membership of the key of t's current call in [g_abs] at its latest candidate
    linearization point), [g_hist] (completed operations: thread, operation, result, [g_lp] at return),
    [g_retired].

    Linearization points: insert/new = the successful link CAS (E2); insert/old and contains/yes = the
    relaxed load of cur->next in find (F3) that saw the node with the searched key unmarked;
    erase/ok = the successful mark CAS (D1); erase/no, contains/no = the last load of the find that
    returns false (the acquire load of prev that reads null, F2, or the validating load of prev, F6). *)
From Coq Require Import NArith List Sorted.
From XV Require Import Base.Word Conc.Lts Conc.Ev Model.HmlDefs Proof.HmlInv.
Import ListNotations.
Local Open Scope N_scope.

(** structure: the chain from head is finite, linked, null-terminated, strictly sorted by key, acyclic,
    its nodes are allocated, head is never marked *)
Theorem C08_hml_structure : forall st, reach init step st ->
  head st = hd 0 (chain st) /\
  linksto (nnext st) (chain st) 0 /\
  StronglySorted (fun x y => nkey st x < nkey st y) (chain st) /\
  NoDup (chain st) /\
  (forall x, In x (chain st) -> x <> 0 /\ x < nalloc st) /\
  nmark st 0 = false.
Proof. exact hml_structure. Qed.
Print Assumptions C08_hml_structure.

(** keys never change; a marked node is never unmarked and its next pointer never changes
    (between any two states of an execution) *)
Theorem C08_hml_frozen : forall s s', reach init step s -> reach_from step s s' ->
  nalloc s <= nalloc s' /\
  forall x, (x < nalloc s -> nkey s' x = nkey s x) /\
            (nmark s x = true -> nmark s' x = true /\ nnext s' x = nnext s x).
Proof. exact hml_frozen. Qed.
Print Assumptions C08_hml_frozen.

(** every node held in a local variable of a thread (start, save/prev, cur, next, the new node) was
    allocated and is null/&head, reachable, retired, or the thread's own not yet linked node *)
Theorem C08_hml_locals : forall st, reach init step st -> forall t x, In x (held (th st t)) ->
  x < nalloc st /\
  (x = 0 \/ In x (chain st) \/ In x (g_retired st) \/ fresh_of (th st t) = Some x).
Proof. exact hml_locals. Qed.
Print Assumptions C08_hml_locals.

(** retired nodes: retired at most once, not reachable, marked; marked nodes are reachable or retired;
    a linked node that is not marked is reachable (unlinked nodes are marked) *)
Theorem C08_hml_retired : forall st, reach init step st ->
  NoDup (g_retired st) /\
  (forall x, In x (g_retired st) -> ~ In x (chain st) /\ nmark st x = true /\ x <> 0 /\ x < nalloc st) /\
  (forall x, nmark st x = true -> In x (chain st) \/ In x (g_retired st)) /\
  (forall t k n, In (LIns t k n) (g_lin st) -> nmark st n = false -> In n (chain st)).
Proof. exact hml_retired. Qed.
Print Assumptions C08_hml_retired.

(** a node is retired only in the step that unlinks it *)
Theorem C08_hml_retire_step : forall s a s' es, reach init step s -> step s a = Some (s', es) ->
  g_retired s' = g_retired s \/
  exists t x, a = Step t /\ g_retired s' = g_retired s ++ [x] /\ In (ENote t 120 [x]) es /\
    In x (chain s) /\ ~ In x (chain s') /\ ~ In x (g_retired s) /\ nmark s x = true /\
    (forall y, In y (chain s) <-> y = x \/ In y (chain s')).
Proof. exact hml_retire_step. Qed.
Print Assumptions C08_hml_retire_step.

(** abstraction: g_abs = keys of the unmarked reachable nodes (as duplicate-free sets) = fold of the
    successful mutators in linearization order *)
Theorem C08_hml_abstraction : forall st, reach init step st ->
  NoDup (g_abs st) /\ NoDup (abs_keys st) /\
  (forall k, In k (g_abs st) <-> In k (abs_keys st)) /\
  g_abs st = apply_lin (g_lin st).
Proof. exact hml_abs. Qed.
Print Assumptions C08_hml_abstraction.

(** linearization points of the mutators: the abstract set changes only at a successful link CAS, which
    adds an absent key and returns new, and at a successful mark CAS of an unmarked reachable node,
    which removes its (present) key *)
Theorem C08_hml_mutator_lp : forall s a s' es, reach init step s -> step s a = Some (s', es) ->
  (g_abs s' = g_abs s /\ g_lin s' = g_lin s) \/
  (exists t n key sv cur, a = Step t /\ th s t = E2 n key sv cur /\
     nnext s sv = cur /\ nmark s sv = false /\
     ~ In key (g_abs s) /\ g_abs s' = key :: g_abs s /\ g_lin s' = g_lin s ++ [LIns t key n] /\
     es = [ERmw t (L_next sv) mo_rel (vmp cur false) (vmp n false); ret_ev t (OIns key) true]) \/
  (exists t key sv cur nx, a = Step t /\ th s t = D1 key sv cur nx /\
     nnext s cur = nx /\ nmark s cur = false /\ nmark s' cur = true /\ nkey s cur = key /\ In cur (chain s) /\
     In key (g_abs s) /\ g_abs s' = remk key (g_abs s) /\ g_lin s' = g_lin s ++ [LDel t key cur] /\
     th s' t = D2 key sv cur nx).
Proof. exact hml_abs_step. Qed.
Print Assumptions C08_hml_mutator_lp.

(** MAIN RESULT (linearization of results): every completed operation carries a witness [Some m], m = the
    membership of its key in the abstract set at its linearization point, and
    insert returned new iff m = false, erase returned ok iff m = true, contains returned m *)
Theorem C08_hml_results : forall st, reach init step st -> forall h, In h (g_hist st) ->
  match h_op h with
  | OIns _ => h_wit h = Some (negb (h_res h))
  | ODel _ | OHas _ => h_wit h = Some (h_res h)
  end.
Proof. exact hml_hist. Qed.
Print Assumptions C08_hml_results.

(** MAIN RESULT (trace level): for every call of an operation [o] by a thread [u] ([in_call u o s0 s]: u took
    the call's first step from s0 and has not returned before s) and the step returning its result [r], there
    is a state [s1] inside the call such that [r] is the sequential set's answer ([res_for]: insert -> key
    absent, erase -> key present, contains -> membership) for the abstract set at [s1] *)
Theorem C08_hml_call_linearizable : forall u o s0 s a s' es r,
  reach init step s0 -> in_call u o s0 s -> step s a = Some (s', es) -> In (ERet u r) es ->
  exists b s1, r = [op_code o; b2n b] /\ in_call u o s0 s1 /\ reach_from step s1 s' /\
    b = res_for o (memb (op_key o) (g_abs s1)).
Proof. exact hml_call_linearizable. Qed.
Print Assumptions C08_hml_call_linearizable.

(** the witness is honest: [g_lp u] changes only in steps of u itself; it is reset by the first step of a
    call and otherwise set to the membership of the call's key in [g_abs] of the state in which the step is
    taken, i.e. at an instant inside the call *)
Theorem C08_hml_witness_step : forall s a s' es u, step s a = Some (s', es) ->
  g_lp s' u = g_lp s u \/
  (a = Step u /\ exists o, cur_op (th s u) = Some o /\
     ((th s u = Begin o /\ g_lp s' u = None) \/ g_lp s' u = Some (memb (op_key o) (g_abs s)))).
Proof. exact hml_lp_step. Qed.
Print Assumptions C08_hml_witness_step.

(** the operation of a call does not change until it returns *)
Theorem C08_hml_op_step : forall s a s' es u o, step s a = Some (s', es) -> cur_op (th s u) = Some o ->
  th s' u = Idle \/ cur_op (th s' u) = Some o.
Proof. exact hml_op_step. Qed.
Print Assumptions C08_hml_op_step.

(** the result printed in the trace is the one recorded in g_hist, with the thread's g_lp as witness *)
Theorem C08_hml_ret_step : forall s a s' es t r, step s a = Some (s', es) -> In (ERet t r) es ->
  exists o b, a = Step t /\ cur_op (th s t) = Some o /\ r = [op_code o; b2n b] /\
    g_hist s' = g_hist s ++ [mkH t o b (g_lp s' t)] /\ th s' t = Idle.
Proof. exact hml_ret_step. Qed.
Print Assumptions C08_hml_ret_step.

(** successful mutators: each LDel is a successful mark CAS of a distinct node carrying the erased key
    (exactly one of several racing erases of a node succeeds); each LIns linked a distinct node *)
Theorem C08_hml_one_eraser : forall st, reach init step st ->
  (forall t k n, In (LDel t k n) (g_lin st) -> nmark st n = true /\ nkey st n = k) /\
  NoDup (del_nodes (g_lin st)) /\
  (forall t k n, In (LIns t k n) (g_lin st) ->
     (In n (chain st) \/ In n (g_retired st)) /\ n <> 0 /\ nkey st n = k) /\
  NoDup (ins_nodes (g_lin st)).
Proof. exact hml_lin_nodes. Qed.
Print Assumptions C08_hml_one_eraser.

(** per thread: the successful mutators in linearization order = the thread's completed successful
    insert/erase operations in program order (+ the erase that marked its node and has not returned):
    insert returns new iff it performed the link CAS, erase returns ok iff it performed the mark CAS *)
Theorem C08_hml_success_iff_cas : forall st, reach init step st -> forall t,
  proj_lin t (g_lin st) = proj_hist t (g_hist st) ++ pending (th st t).
Proof. exact hml_pending. Qed.
Print Assumptions C08_hml_success_iff_cas.

(** conservation: at quiescence the keys in the list are the fold of the successful operations *)
Theorem C08_hml_conservation : forall st, reach init step st -> (forall t, th st t = Idle) ->
  (forall k, In k (abs_keys st) <-> In k (apply_lin (g_lin st))) /\
  (forall t, proj_lin t (g_lin st) = proj_hist t (g_hist st)).
Proof. exact hml_quiescent. Qed.
Print Assumptions C08_hml_conservation.

(** non-vacuity: a reachable state with a marked, still linked node and a pending erase; after a helper
    unlinked and retired the node; two racing erases *)
Example C08_hml_nonvacuous :
  reach init step (st_of ex_marked) /\
  (let st := st_of ex_marked in
   chain st = [2; 1] /\ map (nmark st) (chain st) = [false; true] /\ abs_keys st = [1] /\ g_abs st = [1] /\
   pending (th st 2%nat) = [ODel 2]) /\
  (let st := st_of ex_helped in chain st = [2] /\ g_retired st = [1] /\ th st 2%nat = D2 2 2 1 0) /\
  (let st := st_of ex_race_del in
   g_hist st = [mkH 1 (OIns 5) true (Some false); mkH 3 (ODel 5) false (Some false); mkH 2 (ODel 5) true (Some true)]).
Proof. split; [apply st_of_reach|]. vm_compute. repeat split. Qed.
