(** C07 - element conservation in EVERY reachable state of the further queue models (each tied to the code by trace
    correspondence in the check of its own property): a value accepted by a push is returned by at most one pop and, as long as
    it has not been returned, is still stored in the queue (never lost, never duplicated, never invented).  Statements only; the
    same statements appear in Properties_C04 / C05_nikb / C06_kfb / C06_kfq and are collected here because C07 claims them.
    The destructor half of C07 is modelled for ramalhete_queue only (Properties_C07.v, Properties_C04_ram.v). *)
From Coq Require Import NArith List Bool Permutation.
From XV Require Import Base.Word Conc.Lts Conc.Ev.
From XV Require Model.MsqDefs Proof.MsqInv.
From XV Require gen.ScqGen Model.NikbDefs Proof.NikbArith Proof.NikbBase Proof.NikbWf Proof.NikbOwn Proof.NikbVal Proof.NikbSafe Proof.NikbCons.
From XV Require Model.KfbDefs Proof.KfbArith Proof.KfbWf Proof.KfbOwn Proof.KfbRing Proof.KfbRegion Proof.KfbCons Proof.KfbCall Proof.KfbInv.
From XV Require Model.KfqDefs Proof.KfqWf Proof.KfqOwn Proof.KfqRegion Proof.KfqSeg Proof.KfqCons.
Import ListNotations.

(** michael_scott_queue: enqueued = dequeued ++ stored, in order, in every state *)
Module Msq.
Import Model.MsqDefs Proof.MsqInv.
Local Open Scope N_scope.
Theorem C07_msq_conservation : forall st, reach init step st ->
  g_in st = g_out st ++ map (nval st) (tl (chain st)).
Proof. exact msq_fifo. Qed.
Print Assumptions C07_msq_conservation.
End Msq.

(** nikolaev_bounded_queue: no ticket published, taken or returned twice; returned within taken within published;
    published = taken + still in the ring, as a permutation, in every state *)
Module Nikb.
Import gen.ScqGen Model.NikbDefs Proof.NikbArith Proof.NikbBase Proof.NikbWf Proof.NikbOwn Proof.NikbVal Proof.NikbSafe Proof.NikbCons.
Local Open Scope N_scope.
Theorem C07_nikb_values : forall k R, k <= 40 -> forall s, reach (init (2 ^ k)) (step (2 ^ k) R) s -> g_ovf s = false ->
  NoDup (map fst (g_in s)) /\ NoDup (map fst (g_out s)) /\ incl (g_out s) (g_in s) /\
  NoDup (map fst (g_ok s)) /\ incl (g_ok s) (g_in s) /\
  NoDup (map fst (g_ret s)) /\ incl (g_ret s) (g_out s).
Proof. exact c_values. Qed.
Print Assumptions C07_nikb_values.
Theorem C07_nikb_conservation : forall k R, k <= 40 -> forall s, reach (init (2 ^ k)) (step (2 ^ k) R) s -> g_ovf s = false ->
  Permutation (g_in s) (g_out s ++ ring_pairs k s).
Proof. exact c_published_eq_taken_plus_ring. Qed.
Print Assumptions C07_nikb_conservation.
End Nikb.

(** kirsch_bounded_kfifo_queue *)
Module Kfb.
Import Model.KfbDefs Proof.KfbArith Proof.KfbWf Proof.KfbOwn Proof.KfbRing Proof.KfbRegion Proof.KfbCons Proof.KfbCall Proof.KfbInv.
Local Open Scope N_scope.
Theorem C07_kfb_conservation : forall k segs, 1 <= k -> 1 <= segs -> forall st, reach init (step k segs) st ->
  NoDup (g_out st) /\ NoDup (g_in st) /\ incl (g_out st) (g_in st) /\ incl (g_ok st) (g_in st) /\
  (forall b, In b (g_in st) -> 2 <= b < nalloc st).
Proof. exact kfb_conservation. Qed.
Print Assumptions C07_kfb_conservation.
Theorem C07_kfb_quiescent : forall k segs, 1 <= k -> 1 <= segs -> forall st, reach init (step k segs) st -> quiescent st ->
  Permutation (g_out st ++ stored k segs st) (g_in st) /\
  (forall b, In b (g_ok st) <-> In b (g_in st)) /\
  (forall j, fst (slot st j) <> 0 ->
     j < qsize k segs /\ inreg k segs st j /\ In (fst (slot st j)) (g_in st) /\ ~ In (fst (slot st j)) (g_out st)).
Proof. exact kfb_quiescent. Qed.
Print Assumptions C07_kfb_quiescent.
End Kfb.

(** kirsch_kfifo_queue (unbounded): also across removal of segments *)
Module Kfq.
Import Model.KfqDefs Proof.KfqWf Proof.KfqOwn Proof.KfqRegion Proof.KfqSeg Proof.KfqCons.
Local Open Scope N_scope.
Theorem C07_kfq_conservation : forall k, 1 <= k -> forall st, reach init (step k) st ->
  NoDup (g_out st) /\ NoDup (g_in st) /\ incl (g_out st) (g_in st) /\ incl (g_ok st) (g_in st) /\
  (forall b, In b (g_in st) -> 2 <= b < nalloc st).
Proof. exact kfq_conservation. Qed.
Print Assumptions C07_kfq_conservation.
Theorem C07_kfq_never_stranded : forall k, 1 <= k -> forall st b, reach init (step k) st ->
  In b (g_in st) -> ~ In b (g_out st) ->
  exists x j, linked st x /\ fst (head st) <= x <= fst (tail st) /\ j < k /\ fst (slot st x j) = b /\
    forall x' j', fst (slot st x' j') = b -> x' = x /\ j' = j.
Proof. exact kfq_never_stranded. Qed.
Print Assumptions C07_kfq_never_stranded.
Theorem C07_kfq_quiescent : forall k, 1 <= k -> forall st, reach init (step k) st -> quiescent st ->
  Permutation (g_out st ++ stored k st) (g_in st) /\
  (forall b, In b (g_ok st) <-> In b (g_in st)) /\
  (forall x j, fst (slot st x j) <> 0 ->
     linked st x /\ fst (head st) <= x <= fst (tail st) /\ j < k /\
     In (fst (slot st x j)) (g_in st) /\ ~ In (fst (slot st x j)) (g_out st)).
Proof. exact kfq_quiescent. Qed.
Print Assumptions C07_kfq_quiescent.
End Kfq.
