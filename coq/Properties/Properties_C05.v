(** C05 - bounded queues: property theorems (statements only; proofs live in Proof/VyukovInv.v).
    [VyukovDefs] is the step-level model of vyukov_bounded_queue tied to the code by trace correspondence.
    [Bnd st]: fewer than 2^62 values enqueued so far (no counter wrap). *)
From Coq Require Import NArith List.
From XV Require Import Base.Word Conc.Lts Conc.Ev Model.VyukovDefs Proof.VyukovInv.
Import ListNotations.
Local Open Scope N_scope.

(** ring bounds: never more than [cap] elements; tickets count the linearized operations *)
Theorem C05_vyukov_bounds : forall cap k, 1 <= k -> k <= 30 -> cap = 2 ^ k ->
  forall st, reach init (step cap) st -> Bnd st ->
  deq st <= enq st /\ enq st <= deq st + cap /\
  N.of_nat (length (g_in st)) = enq st /\ N.of_nat (length (g_out st)) = deq st.
Proof. exact vyu_bounds. Qed.
Print Assumptions C05_vyukov_bounds.

(** MAIN RESULT (FIFO, no loss, no duplication, no invention): for any number of threads mixing strong
    and weak operations, the values dequeued so far are exactly the first [deq] values enqueued *)
Theorem C05_vyukov_fifo : forall cap k, 1 <= k -> k <= 30 -> cap = 2 ^ k ->
  forall st, reach init (step cap) st -> Bnd st ->
  g_out st = firstn (N.to_nat (deq st)) (g_in st).
Proof. exact vyu_fifo_prefix. Qed.
Print Assumptions C05_vyukov_fifo.

(** the value a pop returns is the one enqueued with its ticket *)
Theorem C05_vyukov_pop_value : forall cap k, 1 <= k -> k <= 30 -> cap = 2 ^ k ->
  forall st t p, reach init (step cap) st -> Bnd st -> th st t = Q6 p ->
  cval st (cell cap p) = nth (N.to_nat p) (g_in st) 0 /\
  nth (N.to_nat p) (g_out st) 0 = nth (N.to_nat p) (g_in st) 0.
Proof. exact vyu_pop_returns_ticket_value. Qed.
Print Assumptions C05_vyukov_pop_value.

(** a strong try_push fails only at an instant at which the queue is full ... *)
Theorem C05_vyukov_full_justified : forall cap k, 1 <= k -> k <= 30 -> cap = 2 ^ k ->
  forall st t st' es, reach init (step cap) st -> Bnd st ->
  step cap st (Step t) = Some (st', es) -> In (ERet t [0]) es -> enq st = deq st + cap.
Proof. exact vyu_full_step. Qed.
Print Assumptions C05_vyukov_full_justified.

(** ... and a strong try_pop fails only at an instant at which it is empty *)
Theorem C05_vyukov_empty_justified : forall cap k, 1 <= k -> k <= 30 -> cap = 2 ^ k ->
  forall st t st' es, reach init (step cap) st -> Bnd st ->
  step cap st (Step t) = Some (st', es) -> In (ERet t [3]) es -> deq st = enq st.
Proof. exact vyu_empty_step. Qed.
Print Assumptions C05_vyukov_empty_justified.

(** a weak operation that fails changes nothing (it never corrupts the queue for later operations) *)
Theorem C05_vyukov_weak_fail_noop : forall cap st t st' es,
  step cap st (Step t) = Some (st', es) -> In (ERet t [2]) es ->
  enq st' = enq st /\ deq st' = deq st /\ cseq st' = cseq st /\ cval st' = cval st /\
  g_in st' = g_in st /\ g_out st' = g_out st /\ th st' = upd (th st) t Idle /\
  ((exists v pos, th st t = P2 true v pos /\ cseq st (cell cap pos) < pos) \/
   (exists pos, th st t = Q2 true pos /\ cseq st (cell cap pos) < wadd 64 pos 1)).
Proof. exact vyu_weak_fail_noop. Qed.
Print Assumptions C05_vyukov_weak_fail_noop.

(** non-vacuity: a run with two threads reaches a state with a popper holding ticket 0 *)
Example C05_nonvacuous :
  let acts := [Start 1%nat (OPush false 7); Step 1%nat; Step 1%nat; Step 1%nat; Step 1%nat; Step 1%nat;
               Start 2%nat (OPop false); Step 2%nat; Step 2%nat; Step 2%nat; Step 2%nat] in
  let st := fst (fst (run (step 2) init acts)) in
  th st 2%nat = Q6 0 /\ g_in st = [7] /\ g_out st = [7].
Proof. vm_compute. repeat split; reflexivity. Qed.

(** nikolaev_bounded_queue uses the same SCQ index arithmetic (GENERATED from xenium/detail/nikolaev_scq.hpp) *)
From XV Require Import gen.ScqGen Proof.ScqIndex.
Local Open Scope N_scope.

Theorem C05_scq_remap_in_range : forall m idx shift, 1 <= m <= 41 -> idx < 2 ^ 64 ->
  remap_index idx shift (2 ^ m) < 2 ^ m.
Proof. exact remap_index_range. Qed.
Print Assumptions C05_scq_remap_in_range.

Theorem C05_scq_remap_bijective : forall m, 1 <= m <= 41 ->
  let n := 2 ^ m in
  let shift := if m <=? 3 then 0 else m - 3 in
  shift = calc_remap_shift (n / 2) /\
  (forall p1 p2, p1 < n -> p2 < n ->
     remap_index (2 * p1) shift n = remap_index (2 * p2) shift n -> p1 = p2) /\
  (forall y, y < n -> exists p, p < n /\ remap_index (2 * p) shift n = y) /\
  (forall idx, remap_index idx shift n = remap_index (2 * ((idx / 2) mod n)) shift n).
Proof. exact remap_index_bijective. Qed.
Print Assumptions C05_scq_remap_bijective.
