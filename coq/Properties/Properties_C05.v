(** C05 - bounded queues: property theorems (statements only; proofs live in Proof/). *)
From Coq Require Import NArith List.
From XV Require Import Base.Word Conc.Lts Model.VyukovDefs.
Local Open Scope N_scope.

(** initially the ring is empty and every cell waits for the position with its own index *)
Theorem C05_vyukov_init : forall i : N, enq init = 0 /\ deq init = 0 /\ cseq init i = i.
Proof. intros; repeat split; reflexivity. Qed.
Print Assumptions C05_vyukov_init.
