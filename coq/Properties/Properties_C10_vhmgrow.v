(** C10 - vyukov_hash_map is a linearizable map, including the lock-free try_get_value, ACROSS ANY NUMBER OF GROW
    OPERATIONS: theorems about the step-level model with several buckets and grow (Model/VhmGrowDefs.v, tied to the
    implementation by trace correspondence; blocks with fewer than 128 buckets, i.e. without extension items);
    proofs in Proof/VhmGrowBase.v, VhmGrowAbs.v, VhmGrowInv.v, VhmGrowThm.v; examples in Proof/VhmGrowEx.v.
    [hash] is the hash functor, [cap] the bucket count of the initial block. *)
From Coq Require Import NArith List.
From XV Require Import Base.Word Conc.Lts Conc.Ev gen.BucketStateGen Model.VhmGrowDefs
  Proof.VhmGrowBase Proof.VhmGrowAbs Proof.VhmGrowInv Proof.VhmGrowThm.
Import ListNotations.
Local Open Scope N_scope.

(** 1. bucket locks: the lock bit is set iff a thread holds the bucket (between its acquire-CAS and its unlocking store;
    do_grow: every bucket of the old block it has locked so far) or the block has been replaced (then for ever); at most
    one holder; only buckets of the current block are held; the version field counts the version increments mod 2^27 *)
Theorem C10_vhmgrow_bucket_locks : forall hash cap, 0 < cap -> forall st, reach (init cap) (step hash) st -> forall b j,
  (bs_is_locked (bst st b j) = true <-> (exists t, holds (th st t) b j) \/ (g_frozen st b = true /\ j < bcnt st b)) /\
  (forall t t', holds (th st t) b j -> holds (th st t') b j -> t = t') /\
  (forall t, holds (th st t) b j -> b = db st /\ j < bcnt st b) /\
  bs_version (bst st b j) = g_nver st b j mod 2 ^ 27.
Proof. exact vhmg_bucket_locks. Qed.
Print Assumptions C10_vhmgrow_bucket_locks.

(** the resize lock: held iff a thread is between the exchange that found it free and the releasing store; at most one *)
Theorem C10_vhmgrow_resize_lock : forall hash cap, 0 < cap -> forall st, reach (init cap) (step hash) st ->
  (rlock st = 1 <-> exists t, rs_pc (th st t) = true) /\ (rlock st = 0 \/ rlock st = 1) /\
  (forall t t', rs_pc (th st t) = true -> rs_pc (th st t') = true -> t = t').
Proof. exact vhmg_resize_lock. Qed.
Print Assumptions C10_vhmgrow_resize_lock.

(** while do_grow holds the locks of all buckets of the old block (migration), no step of another thread changes a bucket
    of the old or of the new block, or the abstract map *)
Theorem C10_vhmgrow_grow_excludes_writers : forall hash cap, 0 < cap -> forall st t t' ob nb n st' es,
  reach (init cap) (step hash) st ->
  pc_blocks (th st t) = Some (ob, nb, n) -> (forall j, j < n -> holds (th st t) ob j) -> t' <> t ->
  step hash st (Step t') = Some (st', es) ->
  (forall j, same_bkt st st' ob j) /\ (forall j, same_bkt st st' nb j) /\ forall k, lookup k (g_map st') = lookup k (g_map st).
Proof. exact vhmg_grow_excludes_writers. Qed.
Print Assumptions C10_vhmgrow_grow_excludes_writers.

(** the version rule, and: the buckets of a replaced block never change again and stay locked *)
Theorem C10_vhmgrow_version_rule : forall hash cap, 0 < cap -> forall st a st' es b j,
  reach (init cap) (step hash) st -> step hash st a = Some (st', es) -> b = db st \/ g_frozen st b = true ->
  g_nver st' b j = g_nver st b j + 1 \/ (g_nver st' b j = g_nver st b j /\ Env hash st st' b j).
Proof. exact vhmg_version_rule. Qed.
Print Assumptions C10_vhmgrow_version_rule.

Theorem C10_vhmgrow_replaced_block_frozen : forall hash cap, 0 < cap -> forall st a st' es b j,
  reach (init cap) (step hash) st -> step hash st a = Some (st', es) -> g_frozen st b = true ->
  same_bkt st st' b j /\ g_frozen st' b = true /\ bs_is_locked (bst st b j) = (j <? bcnt st b).
Proof. exact vhmg_replaced_block_frozen. Qed.
Print Assumptions C10_vhmgrow_replaced_block_frozen.

(** 2. abstraction: [g_map] = the valid slots of the buckets of the CURRENT block; every key in the bucket its hash selects
    for that block, exactly once; an unowned bucket is unlocked and has no delete marker *)
Theorem C10_vhmgrow_structure : forall hash cap, 0 < cap -> forall st, reach (init cap) (step hash) st ->
  (forall k v, lookup k (g_map st) = Some v <->
               exists i, vslot st (db st) (hash k mod bcnt st (db st)) i /\
                         akey st (db st) (hash k mod bcnt st (db st)) i = k /\ aval st (db st) (hash k mod bcnt st (db st)) i = v) /\
  (forall j i, j < bcnt st (db st) -> vslot st (db st) j i -> hash (akey st (db st) j i) mod bcnt st (db st) = j) /\
  (forall j i i', j < bcnt st (db st) -> vslot st (db st) j i -> vslot st (db st) j i' ->
                  akey st (db st) j i = akey st (db st) j i' -> i = i') /\
  (forall j, g_own st (db st) j = None -> mk st (db st) j = 0 /\ bs_is_locked (bst st (db st) j) = false).
Proof. exact vhmg_structure. Qed.
Print Assumptions C10_vhmgrow_structure.

(** grow does not change the abstract map ... *)
Theorem C10_vhmgrow_grow_keeps_map : forall hash st t st' es,
  grow_pc (th st t) = true -> step hash st (Step t) = Some (st', es) -> g_map st' = g_map st.
Proof. exact vhmg_grow_keeps_map. Qed.
Print Assumptions C10_vhmgrow_grow_keeps_map.

(** ... and the block it publishes represents it: the abstraction holds before the store to data_block w.r.t. the old
    block and after it w.r.t. the new block (twice the size), for the same [g_map], and the store changes no bucket *)
Theorem C10_vhmgrow_publish : forall hash cap, 0 < cap -> forall st t c ob nb n st' es,
  reach (init cap) (step hash) st -> th st t = DP1 c ob nb n -> step hash st (Step t) = Some (st', es) ->
  db st = ob /\ db st' = nb /\ g_map st' = g_map st /\ bcnt st' nb = 2 * bcnt st ob /\ G hash st /\ G hash st' /\
  (forall j, same_bkt st st' ob j) /\ (forall j, same_bkt st st' nb j).
Proof. exact vhmg_publish. Qed.
Print Assumptions C10_vhmgrow_publish.

(** bucket counts are powers of two, so hash & (bucket_count - 1) is the [mod] of the model *)
Theorem C10_vhmgrow_bucket_count_pow2 : forall hash e0 st, reach (init (2 ^ e0)) (step hash) st ->
  forall b, bcnt st b = 0 \/ exists e, bcnt st b = 2 ^ e.
Proof. exact vhmg_bucket_count_pow2. Qed.
Print Assumptions C10_vhmgrow_bucket_count_pow2.
Theorem C10_vhmgrow_index_mask : forall h e, N.land h (2 ^ e - 1) = h mod 2 ^ e.
Proof. exact index_mask. Qed.
Print Assumptions C10_vhmgrow_index_mask.

(** 3. writers: [g_map] changes exactly at the linearization points, which record the previous association of the key in
    [g_lp]; results agree with it ([hist_ok_w]); an erase / extract that answered 'absent' without taking the lock
    observed the key absent inside the call ([hist_ok_r]) *)
Theorem C10_vhmgrow_lp_step : forall hash st a st' es, step hash st a = Some (st', es) ->
  g_map st' = g_map st \/
  exists t k, a = Step t /\ g_lp st' t = Some (lookup k (g_map st)) /\
    ((exists v, g_map st' = (k, v) :: g_map st) \/ g_map st' = rem k (g_map st)).
Proof. exact vhmg_lp_step. Qed.
Print Assumptions C10_vhmgrow_lp_step.

Theorem C10_vhmgrow_writers : forall hash cap, 0 < cap -> forall st, reach (init cap) (step hash) st ->
  forall h, In h (g_hist st) -> hist_ok_w h /\ (Bnd st -> hist_ok_r h).
Proof. exact vhmg_writers. Qed.
Print Assumptions C10_vhmgrow_writers.

(** 4. readers, in terms of the recorded observations *)
Theorem C10_vhmgrow_readers : forall hash cap, 0 < cap -> forall st, reach (init cap) (step hash) st -> Bnd st ->
  forall h k, In h (g_hist st) -> h_op h = OGet k ->
  (exists v, h_res h = [4; 1; v] /\ In (Some v) (h_obs h)) \/ (h_res h = [4; 0] /\ In None (h_obs h)).
Proof. exact vhmg_readers. Qed.
Print Assumptions C10_vhmgrow_readers.

(** readers, over executions: the main theorem (any number of threads, programs, schedules, grows during the call) *)
Theorem C10_vhmgrow_try_get_value_linearizable : forall hash cap, 0 < cap -> forall s h a t k s' es r,
  exec hash cap s h -> step hash s a = Some (s', es) -> a = Step t -> get_key (th s t) = Some k -> In (ERet t r) es -> Bnd s' ->
  exists m, (m <= length h)%nat /\
    (forall m', (m' <= m)%nat -> get_key (th (nth m' (s :: h) s) t) = Some k) /\
    ((exists v, r = [4; 1; v] /\ lookup k (g_map (nth m (s :: h) s)) = Some v) \/
     (r = [4; 0] /\ lookup k (g_map (nth m (s :: h) s)) = None)).
Proof. exact vhmg_try_get_value_linearizable. Qed.
Print Assumptions C10_vhmgrow_try_get_value_linearizable.

Theorem C10_vhmgrow_never_absent_if_present : forall hash cap s h a t k s' es, 0 < cap ->
  exec hash cap s h -> step hash s a = Some (s', es) -> a = Step t -> get_key (th s t) = Some k -> Bnd s' ->
  (forall m, (m <= length h)%nat -> get_key (th (nth m (s :: h) s) t) = Some k ->
             lookup k (g_map (nth m (s :: h) s)) <> None) ->
  ~ In (ERet t [4; 0]) es.
Proof. exact vhmg_never_absent_if_present. Qed.
Print Assumptions C10_vhmgrow_never_absent_if_present.

Theorem C10_vhmgrow_value_was_associated : forall hash cap s h a t k s' es v, 0 < cap ->
  exec hash cap s h -> step hash s a = Some (s', es) -> a = Step t -> get_key (th s t) = Some k -> Bnd s' ->
  In (ERet t [4; 1; v]) es ->
  exists m, (m <= length h)%nat /\ get_key (th (nth m (s :: h) s) t) = Some k /\
            lookup k (g_map (nth m (s :: h) s)) = Some v.
Proof. exact vhmg_value_was_associated. Qed.
Print Assumptions C10_vhmgrow_value_was_associated.

(** the lock-free exit of erase / extract (item_count = 0 read before locking, possibly in a replaced block) *)
Theorem C10_vhmgrow_erase_empty_linearizable : forall hash cap, 0 < cap -> forall s h t e k b j s' es r,
  exec hash cap s h -> step hash s (Step t) = Some (s', es) -> th s t = X2 e k b j -> In (ERet t r) es -> Bnd s' ->
  r = del_res e false 0 /\
  exists m, (m <= length h)%nat /\
    (forall m', (m' <= m)%nat -> call_key (th (nth m' (s :: h) s) t) = Some k) /\
    lookup k (g_map (nth m (s :: h) s)) = None.
Proof. exact vhmg_erase_empty_linearizable. Qed.
Print Assumptions C10_vhmgrow_erase_empty_linearizable.

(** 5. retired blocks: retired at most once, replaced (hence never the current block, in any reachable state, and the
    list only grows), and every replaced block is retired or its do_grow stands just before the retire *)
Theorem C10_vhmgrow_retired : forall hash cap, 0 < cap -> forall st, reach (init cap) (step hash) st ->
  NoDup (g_retired st) /\
  (forall b, In b (g_retired st) -> g_frozen st b = true /\ b <> db st /\ b < nalloc st) /\
  (forall b, g_frozen st b = true -> In b (g_retired st) \/ exists t c nb, th st t = DP2 c b nb) /\
  (forall a st' es, step hash st a = Some (st', es) -> exists l, g_retired st' = g_retired st ++ l).
Proof. exact vhmg_retired. Qed.
Print Assumptions C10_vhmgrow_retired.
