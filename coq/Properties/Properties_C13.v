(** C13 - left_right: property theorems (statements only; proofs live in Proof/LeftRightInv.v).
    [LeftRightDefs] is the step-level model tied to left_right.hpp by trace correspondence.
    [bstep n] is [step] restricted to thread ids below n: the reader counters are 64-bit, so with
    2^64 simultaneous readers exclusion would fail; all theorems that need the counters assume n < 2^64. *)
From Coq Require Import NArith List.
From XV Require Import Base.Word Conc.Lts Model.LeftRightDefs Proof.LeftRightInv.
Import ListNotations.
Local Open Scope N_scope.

(** writers are serialised by the mutex *)
Theorem C13_mutex : forall st, reach init step st ->
  (forall w, mutex (sh st) = Some w <-> wpc (th st w) = true) /\
  (forall w1 w2, wpc (th st w1) = true -> wpc (th st w2) = true -> w1 = w2).
Proof. exact lr_mutex. Qed.
Print Assumptions C13_mutex.

(** MAIN RESULT: a read functor never runs on the instance an update functor is modifying
    (any number of readers and writers below 2^64, any program, any schedule) *)
Theorem C13_exclusion : forall n st, N.of_nat n < 2 ^ 64 -> reach init (bstep n) st ->
  forall r w v i, (th st r = R4 v i \/ exists x, th st r = R5 v i x) ->
  forall d l, ((th st w = U2 d l \/ th st w = U3 d l) -> other l <> i) /\
              ((th st w = U9 d l \/ th st w = U10 d l) -> l <> i).
Proof. exact lr_exclusion. Qed.
Print Assumptions C13_exclusion.

(** a read never returns a mixture of two states *)
Theorem C13_read_consistent : forall n st, N.of_nat n < 2 ^ 64 -> reach init (bstep n) st ->
  forall r v x y, th st r = R6 v x y -> x = y.
Proof. exact lr_read_consistent. Qed.
Print Assumptions C13_read_consistent.

(** every update is applied exactly once to each instance, in the same order: at every state in
    which no writer is active both instances hold the sum of all updates *)
Theorem C13_twice : forall st, reach init step st -> mutex (sh st) = None ->
  lx (sh st) = sumw (g_updates st) /\ ly (sh st) = sumw (g_updates st) /\
  rx (sh st) = sumw (g_updates st) /\ ry (sh st) = sumw (g_updates st).
Proof. exact lr_twice. Qed.
Print Assumptions C13_twice.

(** reads are linearizable with updates: the value a read returns is the sum of a prefix of the
    update sequence that is the current one or the one just before the update in progress *)
Theorem C13_read_value : forall n st, N.of_nat n < 2 ^ 64 -> reach init (bstep n) st ->
  forall r, match th st r with
  | R4 v i => recent (g_updates st) (get_x (sh st) i)
  | R5 v i x => x = get_x (sh st) i /\ recent (g_updates st) x
  | R6 v x y => recent (g_updates st) x /\ y = x
  | _ => True end.
Proof. exact lr_read_value. Qed.
Print Assumptions C13_read_value.

(** bounded reachability covers every executable run whose actions only name threads below n *)
Theorem C13_bounded_runs : forall n acts, Forall (fun a => (tid a < n)%nat) acts ->
  reach init (bstep n) (fst (fst (run step init acts))).
Proof. exact run_breach. Qed.
Print Assumptions C13_bounded_runs.
