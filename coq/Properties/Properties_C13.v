(** C13 - left_right: property theorems (statements only; proofs live in Proof/). *)
From Coq Require Import NArith List.
From XV Require Import Base.Word Conc.Lts Model.LeftRightDefs.
Local Open Scope N_scope.

(** sanity obligation on the model (replaced/extended by the invariant theorems of Proof/LeftRightInv.v):
    the initial state is quiescent and both instances agree *)
Theorem C13_init_consistent : lx (sh init) = rx (sh init) /\ ly (sh init) = ry (sh init) /\ mutex (sh init) = None.
Proof. repeat split; reflexivity. Qed.
Print Assumptions C13_init_consistent.
