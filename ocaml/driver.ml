(* driver.ml - runs the extracted Coq models (xm.ml) on case files and prints traces in the same
   vocabulary as rt/xvrt (trusted glue: parsing and printing only).
     driver <model> run <casefile>            print TRACE/HIST lines for the case's schedule
     driver <model> gen <casefile> <n> <seed> generate n random complete schedules for the program,
                                              print "SCHED ..." lines + coverage of model pcs *)
module List = Stdlib.List
module String = Stdlib.String
open BinNums
open Datatypes
open Ev

let rec pos_of_int i = if i = 1 then Coq_xH else if i land 1 = 1 then Coq_xI (pos_of_int (i lsr 1)) else Coq_xO (pos_of_int (i lsr 1))
let n_of_int i = if i = 0 then N0 else Npos (pos_of_int i)
let n_of_string s =
  (* decimal, up to 2^64-1 *)
  let v = Int64.of_string ("0u" ^ s) in
  let rec go (v : int64) = if Int64.equal v 0L then None else
    let lo = Int64.logand v 1L and rest = Int64.shift_right_logical v 1 in
    (match go rest with
     | None -> Some Coq_xH
     | Some p -> Some (if Int64.equal lo 1L then Coq_xI p else Coq_xO p)) in
  match go v with None -> N0 | Some p -> Npos p
let rec int64_of_pos = function Coq_xH -> 1L | Coq_xO p -> Int64.shift_left (int64_of_pos p) 1 | Coq_xI p -> Int64.logor (Int64.shift_left (int64_of_pos p) 1) 1L
let int64_of_n = function N0 -> 0L | Npos p -> int64_of_pos p
let string_of_n n = Printf.sprintf "%Lu" (int64_of_n n)
let int_of_n n = Int64.to_int (int64_of_n n)
let rec nat_of_int i = if i = 0 then O else S (nat_of_int (i - 1))
let rec int_of_nat = function O -> 0 | S n -> 1 + int_of_nat n

let mo_name n = match int_of_n n with 0 -> "rlx" | 1 -> "cns" | 2 -> "acq" | 3 -> "rel" | 4 -> "acqrel" | 5 -> "sc" | _ -> "?"

(* per-model naming of LNamed codes and operations *)
type naming = { named : int -> string; opname : int -> string; resname : coq_N list -> string; note : int -> coq_N list -> string option }
let no_note _ _ = None

let loc_str nm = function
  | LNamed (c, off) -> let b = nm.named (int_of_n c) in if int_of_n off = 0 then b else b ^ "+" ^ string_of_n off
  | LHeap (b, off) -> "h" ^ string_of_n b ^ "+" ^ string_of_n off
let val_str nm = function
  | VInt n -> string_of_n n
  | VPtr (l, up) -> "&" ^ loc_str nm l ^ (if int_of_n up = 0 then "" else "^" ^ string_of_n up)

let ev_lines nm e =
  let t i = "T" ^ string_of_int (int_of_nat i) ^ " " in
  match e with
  | EStart (i, op, args) -> [t i ^ "YIELD"; t i ^ "inv " ^ nm.opname (int_of_n op) ^ String.concat "" (List.map (fun a -> " " ^ string_of_n a) args)]
  | ELoad (i, l, mo, v) -> [t i ^ "LD " ^ loc_str nm l ^ " " ^ mo_name mo ^ " " ^ val_str nm v]
  | EStore (i, l, mo, v) -> [t i ^ "ST " ^ loc_str nm l ^ " " ^ mo_name mo ^ " " ^ val_str nm v]
  | ERmw (i, l, mo, o, n) -> [t i ^ "RMW " ^ loc_str nm l ^ " " ^ mo_name mo ^ " " ^ val_str nm o ^ " " ^ val_str nm n]
  | ECasF (i, l, mo, fmo, seen, exp) -> [t i ^ "CASF " ^ loc_str nm l ^ " " ^ mo_name mo ^ "/" ^ mo_name fmo ^ " " ^ val_str nm seen ^ " " ^ val_str nm exp]
  | EFence (i, mo) -> [t i ^ "FENCE " ^ mo_name mo]
  | ERet (i, r) -> [t i ^ "res " ^ nm.resname r]
  | EAlloc (i, b, sz) -> [t i ^ "ALLOC h" ^ string_of_n b ^ " " ^ string_of_n sz]
  | EFree (i, b) -> [t i ^ "FREE h" ^ string_of_n b]
  | ENote (i, c, args) ->
    (match int_of_n c with
     | 100 -> [t i ^ "LOCK mutex"] | 101 -> [t i ^ "UNLOCK mutex"] | 102 -> [t i ^ "SCHED_YIELD"]
     | code -> (match nm.note code args with Some s -> [t i ^ s] | None -> [t i ^ "NOTE " ^ string_of_n c ^ String.concat "" (List.map (fun a -> " " ^ string_of_n a) args)]))

(* ---------------------------------------------------------------- case files *)
type case = { cfg : (string * string) list; prog : (string * string list) list array; sched : int list; choices : int list }

let split_ws s = List.filter (fun x -> x <> "") (String.split_on_char ' ' (String.trim s))

let parse_case path =
  let ic = open_in path in
  let cfg = ref [] and prog = ref [] and sched = ref [] and choices = ref [] in
  (try while true do
    let line = String.trim (input_line ic) in
    if line <> "" && line.[0] <> '#' then begin
      match split_ws line with
      | "cfg" :: kvs -> List.iter (fun kv -> match String.index_opt kv '=' with Some i -> cfg := (String.sub kv 0 i, String.sub kv (i + 1) (String.length kv - i - 1)) :: !cfg | None -> ()) kvs
      | "thread" :: _ ->
        let colon = String.index line ':' in
        let head = String.sub line 0 colon in
        let tid = int_of_string (List.nth (split_ws head) 1) in
        let rest = String.sub line (colon + 1) (String.length line - colon - 1) in
        let ops = List.filter_map (fun o -> match split_ws o with [] -> None | name :: args -> Some (name, args)) (String.split_on_char ';' rest) in
        prog := (tid, ops) :: !prog
      | "sched" :: ts -> sched := List.map int_of_string ts
      | "choices" :: ts -> choices := List.map int_of_string ts
      | _ -> ()
    end
  done with End_of_file -> ());
  close_in ic;
  let n = List.fold_left (fun m (t, _) -> max m t) 0 !prog in
  let arr = Array.make (n + 1) [] in
  List.iter (fun (t, ops) -> arr.(t) <- ops) !prog;
  { cfg = !cfg; prog = arr; sched = !sched; choices = !choices }

let cfg_get c k d = try List.assoc k c.cfg with Not_found -> d

(* ---------------------------------------------------------------- generic runner
   A model instance packs: state, "thread t is idle", "start op", "step", "pc tag of thread t" *)
type 'st inst = {
  init : 'st;
  idle : 'st -> int -> bool;
  start : 'st -> int -> (string * string list) -> 'st option;     (* Start action *)
  step : 'st -> int -> int -> ('st * ev list) option;              (* Step action with oracle *)
  pctag : 'st -> int -> string;
  nm : naming;
}

(* run a schedule; each schedule entry = (if idle: Start next op) then Step *)
let run_sched inst (c : case) (sched : int list) (emit : string -> unit) =
  let st = ref inst.init in
  let remaining = Array.map (fun ops -> ref ops) c.prog in
  let choices = ref c.choices in
  let skipped = ref 0 in
  let covered = Hashtbl.create 64 in
  List.iter (fun t ->
    if t < Array.length remaining then begin
      if inst.idle !st t then begin
        match !(remaining.(t)) with
        | [] -> incr skipped
        | o :: rest -> (match inst.start !st t o with Some s' -> st := s'; remaining.(t) := rest | None -> incr skipped)
      end;
      if not (inst.idle !st t) then begin
        Hashtbl.replace covered (inst.pctag !st t) ();
        let orc = match !choices with [] -> 0 | x :: r -> x in
        match inst.step !st t orc with
        | Some (s', evs) -> st := s'; List.iter (fun e -> List.iter emit (ev_lines inst.nm e)) evs
        | None -> incr skipped
      end
    end else incr skipped) sched;
  (!st, !skipped, covered, remaining)

(* a thread can move if (after starting its next operation when idle) its step is enabled *)
let gen_schedule inst (c : case) (rng : Random.State.t) (switch_pct : int) maxlen =
  let st = ref inst.init in
  let remaining = Array.map (fun ops -> ref ops) c.prog in
  let sched = ref [] in
  let cur = ref 0 in
  let n = Array.length remaining - 1 in
  (* returns the state after "start if idle" and the step result *)
  let attempt t =
    let s0 = !st in
    let s1, rest =
      if inst.idle s0 t then
        (match !(remaining.(t)) with
         | o :: rest -> (match inst.start s0 t o with Some s' -> Some s', Some rest | None -> None, None)
         | [] -> None, None)
      else Some s0, None in
    match s1 with
    | None -> None
    | Some s1 -> (match inst.step s1 t 0 with Some (s2, _) -> Some (s2, rest) | None -> None) in
  let len = ref 0 in
  let stuck = ref false in
  while (not !stuck) && !len < maxlen do
    let cands = List.filter (fun t -> attempt t <> None) (List.init n (fun i -> i + 1)) in
    if cands = [] then stuck := true else begin
      let t = if !cur > 0 && List.mem !cur cands && Random.State.int rng 100 >= switch_pct then !cur else List.nth cands (Random.State.int rng (List.length cands)) in
      cur := t;
      match attempt t with
      | Some (s2, rest) -> st := s2; (match rest with Some r -> remaining.(t) := r | None -> ()); sched := t :: !sched; incr len
      | None -> stuck := true
    end
  done;
  List.rev !sched

(* ---------------------------------------------------------------- chase deque *)
let chase_inst (c : case) : ChaseDefs.state inst =
  let open ChaseDefs in
  let cap = n_of_int (int_of_string (cfg_get c "capacity" "4")) in
  let pol = if cfg_get c "container" "growing" = "fixed" then Fixed cap else Growing (cap, n_of_string "2147483648") in
  let nm = {
    named = (function 0 -> "bottom" | 1 -> "top" | 2 -> "capacity" | 3 -> "items" | _ -> "?");
    opname = (function 0 -> "push" | 1 -> "pop" | 2 -> "steal" | _ -> "?");
    resname = (fun r -> match r with [a; x] when int_of_n a = 1 -> string_of_n x | [a] when int_of_n a = 1 -> "ok" | [a] when int_of_n a = 2 -> "empty" | _ -> "full");
    note = no_note;
  } in
  { init = ChaseDefs.init pol;
    idle = (fun st t -> match st.th (nat_of_int t) with Idle -> true | _ -> false);
    start = (fun st t (name, args) ->
      let o = match name, args with
        | "push", [v] -> OPush (n_of_string v) | "pop", _ -> OPop | _ -> OSteal in
      match ChaseDefs.step pol st (Start (nat_of_int t, o)) with Some (s', _) -> Some s' | None -> None);
    step = (fun st t _ -> ChaseDefs.step pol st (Step (nat_of_int t)));
    pctag = (fun st t -> let p = st.th (nat_of_int t) in string_of_int (Obj.tag (Obj.repr p)) ^ (if Obj.is_int (Obj.repr p) then "i" ^ string_of_int (Obj.magic p : int) else ""));
    nm }

(* ---------------------------------------------------------------- seqlock *)
let seqlock_inst (c : case) : SeqlockDefs.state inst =
  let open SeqlockDefs in
  let slots = n_of_int (int_of_string (cfg_get c "slots" "1")) in
  let size = int_of_string (cfg_get c "size" "24") in
  let words = nat_of_int ((size + 7) / 8) in
  let nsize = n_of_int size in
  let func = pat_func nsize words in
  let v0 = pat_words nsize words N0 in
  let nm = {
    named = (function 0 -> "seq" | 1 -> "data" | _ -> "?");
    opname = (function 0 -> "load" | 1 -> "store" | 2 -> "update" | _ -> "?");
    resname = (fun r -> match r with [] -> "ok" | ws -> (match pat_find nsize words ws (nat_of_int 4096) N0 with Some v -> string_of_n v | None -> "torn"));
    note = no_note;
  } in
  (* inv lines print the operation's argument as the harness does (the value id, not its words) *)
  let nm_inv = { nm with opname = nm.opname } in
  ignore nm_inv;
  { init = SeqlockDefs.init v0;
    idle = (fun st t -> match st.th (nat_of_int t) with Idle -> true | _ -> false);
    start = (fun st t (name, args) ->
      let o = match name, args with
        | "store", [v] -> OStore (n_of_string v, pat_words nsize words (n_of_string v)) | "update", [d] -> OUpdate (n_of_string d) | _ -> OLoad in
      match SeqlockDefs.step slots words func st (Start (nat_of_int t, o)) with Some (s', _) -> Some s' | None -> None);
    step = (fun st t _ -> SeqlockDefs.step slots words func st (Step (nat_of_int t)));
    pctag = (fun st t -> let p = st.th (nat_of_int t) in if Obj.is_int (Obj.repr p) then "i" ^ string_of_int (Obj.magic p : int) else string_of_int (Obj.tag (Obj.repr p)));
    nm }

(* ---------------------------------------------------------------- left_right *)
let lr_inst (c : case) : LeftRightDefs.state inst =
  let open LeftRightDefs in
  let iname i = if int_of_n i = 0 then "left" else "right" in
  let fname f = if int_of_n f = 0 then "x" else "y" in
  let nm = {
    named = (function 0 -> "mutex" | 1 -> "version" | 2 -> "lr" | 3 -> "ind0" | 4 -> "ind1" | _ -> "?");
    opname = (function 0 -> "read" | 1 -> "update" | _ -> "?");
    resname = (fun r -> match r with [] -> "ok" | [x; y] -> if int64_of_n x = int64_of_n y then string_of_n x else "mixed:" ^ string_of_n x ^ "," ^ string_of_n y | _ -> "?");
    note = (fun code args -> match code, args with
      | 110, [i; f; v] -> Some ("PR " ^ iname i ^ "." ^ fname f ^ " " ^ string_of_n v)
      | 111, [i; f; v] -> Some ("PW " ^ iname i ^ "." ^ fname f ^ " " ^ string_of_n v)
      | _ -> None);
  } in
  { init = LeftRightDefs.init;
    idle = (fun st t -> match st.th (nat_of_int t) with Idle -> true | _ -> false);
    start = (fun st t (name, args) ->
      let o = match name, args with "update", [d] -> OUpdate (n_of_string d) | _ -> ORead in
      match LeftRightDefs.step st (Start (nat_of_int t, o)) with Some (s', _) -> Some s' | None -> None);
    step = (fun st t _ -> LeftRightDefs.step st (Step (nat_of_int t)));
    pctag = (fun st t -> let p = st.th (nat_of_int t) in if Obj.is_int (Obj.repr p) then "i" ^ string_of_int (Obj.magic p : int) else string_of_int (Obj.tag (Obj.repr p)));
    nm }

(* ---------------------------------------------------------------- vyukov bounded queue *)
let simple_pctag th st t = let p = th st (nat_of_int t) in if Obj.is_int (Obj.repr p) then "i" ^ string_of_int (Obj.magic p : int) else string_of_int (Obj.tag (Obj.repr p))
let vyu_inst (c : case) : VyukovDefs.state inst =
  let open VyukovDefs in
  let cap = n_of_int (int_of_string (cfg_get c "cap" "2")) in
  let nm = {
    named = (fun i -> if i = 0 then "enq" else if i = 1 then "deq" else "cell" ^ string_of_int (i - 10));
    opname = (function 0 -> "push" | 1 -> "pop" | 2 -> "pushw" | 3 -> "popw" | _ -> "?");
    resname = (fun r -> match List.map int_of_n r with [1] -> "ok" | [1; _] -> string_of_n (List.nth r 1) | [0] -> "full" | [3] -> "empty" | [2] -> "wfail" | _ -> "?");
    note = no_note;
  } in
  { init = VyukovDefs.init;
    idle = (fun st t -> match st.th (nat_of_int t) with Idle -> true | _ -> false);
    start = (fun st t (name, args) ->
      let o = match name, args with
        | "push", [v] -> OPush (false, n_of_string v) | "pushw", [v] -> OPush (true, n_of_string v)
        | "popw", _ -> OPop true | _ -> OPop false in
      match VyukovDefs.step cap st (Start (nat_of_int t, o)) with Some (s', _) -> Some s' | None -> None);
    step = (fun st t _ -> VyukovDefs.step cap st (Step (nat_of_int t)));
    pctag = simple_pctag (fun st -> st.th);
    nm }

(* ---------------------------------------------------------------- michael_scott_queue (GC reclaimer) *)
let msq_inst (c : case) : MsqDefs.state inst =
  let open MsqDefs in
  let nm = {
    named = (function 0 -> "head" | 1 -> "tail" | _ -> "?");
    opname = (function 0 -> "push" | 1 -> "pop" | _ -> "?");
    resname = (fun r -> match List.map int_of_n r with [1] -> "ok" | [1; _] -> string_of_n (List.nth r 1) | [0] -> "empty" | _ -> "?");
    note = (fun code args -> match code, args with 120, [h] -> Some ("RETIRE h" ^ string_of_n h ^ "+0") | _ -> None);
  } in
  { init = MsqDefs.init;
    idle = (fun st t -> match st.th (nat_of_int t) with Idle -> true | _ -> false);
    start = (fun st t (name, args) ->
      let o = match name, args with "push", [v] -> OPush (n_of_string v) | _ -> OPop in
      match MsqDefs.step st (Start (nat_of_int t, o)) with Some (s', _) -> Some s' | None -> None);
    step = (fun st t _ -> MsqDefs.step st (Step (nat_of_int t)));
    pctag = simple_pctag (fun st -> st.th);
    nm }

(* ---------------------------------------------------------------- thread_block_list (C17) *)
let tbl_inst (c : case) : TblDefs.state inst =
  let open TblDefs in
  let nm = {
    named = (function 0 -> "head" | _ -> "?");
    opname = (function 0 -> "acq" | 1 -> "rel" | 2 -> "acqi" | 3 -> "act" | _ -> "?");
    resname = (fun r -> match r with [e] -> string_of_n e | _ -> "?");
    note = no_note;
  } in
  { init = TblDefs.init;
    idle = (fun st t -> match st.th (nat_of_int t) with Idle -> true | _ -> false);
    start = (fun st t (name, _) ->
      let o = match name with "acq" -> OAcquire | "rel" -> ORelease | "acqi" -> OAcquireInactive | _ -> OActivate in
      match TblDefs.step st (Start (nat_of_int t, o)) with Some (s', _) -> Some s' | None -> None);
    step = (fun st t _ -> TblDefs.step st (Step (nat_of_int t)));
    pctag = simple_pctag (fun st -> st.th);
    nm }

(* ---------------------------------------------------------------- harris_michael_list_based_set (GC reclaimer) *)
let hml_inst (c : case) : HmlDefs.state inst =
  let open HmlDefs in
  let nm = {
    named = (fun _ -> "?");
    opname = (function 0 -> "ins" | 1 -> "del" | 2 -> "has" | _ -> "?");
    resname = (fun r -> match List.map int_of_n r with
      | [0; 1] -> "new" | [0; 0] -> "old" | [1; 1] -> "ok" | [1; 0] -> "no" | [2; 1] -> "yes" | [2; 0] -> "no" | _ -> "?");
    note = (fun code args -> match code, args with 120, [h] -> Some ("RETIRE h" ^ string_of_n h ^ "+0") | _ -> None);
  } in
  { init = HmlDefs.init;
    idle = (fun st t -> match st.th (nat_of_int t) with Idle -> true | _ -> false);
    start = (fun st t (name, args) ->
      let k = match args with v :: _ -> n_of_string v | [] -> n_of_int 0 in
      let o = match name with "ins" -> OIns k | "del" -> ODel k | _ -> OHas k in
      match HmlDefs.step st (Start (nat_of_int t, o)) with Some (s', _) -> Some s' | None -> None);
    step = (fun st t _ -> HmlDefs.step st (Step (nat_of_int t)));
    pctag = simple_pctag (fun st -> st.th);
    nm }

(* ---------------------------------------------------------------- harris_michael_list_based_set with iterator operations (C09) *)
let hmlit_inst (c : case) : HmlItDefs.xstate inst =
  let open HmlItDefs in
  let pos = function [0] -> "end" | [1; k] -> string_of_int k | _ -> "?" in
  let nm = {
    named = (fun _ -> "?");
    opname = (function 0 -> "ins" | 1 -> "del" | 2 -> "has" | 3 -> "itb" | 4 -> "itf" | 5 -> "itn" | 6 -> "itd" | 7 -> "ite" | 8 -> "itr" | _ -> "?");
    resname = (fun r -> match List.map int_of_n r with
      | [0; 1] -> "new" | [0; 0] -> "old" | [1; 1] -> "ok" | [1; 0] -> "no" | [2; 1] -> "yes" | [2; 0] -> "no"
      | [7; 0] -> "end" | 7 :: 1 :: was :: p -> string_of_int was ^ ">" ^ pos p
      | [8] -> "ok"
      | (3 | 4 | 5 | 6) :: p -> pos p
      | _ -> "?");
    note = (fun code args -> match code, args with 120, [h] -> Some ("RETIRE h" ^ string_of_n h ^ "+0") | _ -> None);
  } in
  let tag p = if Obj.is_int (Obj.repr p) then "i" ^ string_of_int (Obj.magic p : int) else string_of_int (Obj.tag (Obj.repr p)) in
  { init = HmlItDefs.xinit;
    idle = (fun st t -> match st.ith (nat_of_int t), st.base.HmlDefs.th (nat_of_int t) with IIdle, HmlDefs.Idle -> true | _ -> false);
    start = (fun st t (name, args) ->
      let k = match args with v :: _ -> n_of_string v | [] -> n_of_int 0 in
      let o = match name with
        | "ins" -> OBase (HmlDefs.OIns k) | "del" -> OBase (HmlDefs.ODel k) | "has" -> OBase (HmlDefs.OHas k)
        | "itb" -> OItB | "itf" -> OItF k | "itn" -> OItN | "itd" -> OItD | "ite" -> OItE | _ -> OItR in
      match HmlItDefs.xstep st (XStart (nat_of_int t, o)) with Some (s', _) -> Some s' | None -> None);
    step = (fun st t _ -> HmlItDefs.xstep st (XStep (nat_of_int t)));
    pctag = (fun st t -> "x" ^ tag (st.ith (nat_of_int t)) ^ "b" ^ tag (st.base.HmlDefs.th (nat_of_int t)));
    nm }

(* ---------------------------------------------------------------- epoch_based reclaimer with the generic client (C01/C02) *)
let ebr_pctag th st t = let p = th st (nat_of_int t) in if Obj.is_int (Obj.repr p) then "i" ^ string_of_int (Obj.magic p : int) else string_of_int (Obj.tag (Obj.repr p))
let ebr_inst (c : case) : EbrDefs.state inst =
  let open EbrDefs in
  let ncells = n_of_int (int_of_string (cfg_get c "cells" "2")) in
  let nslots = nat_of_int (int_of_string (cfg_get c "slots" "3")) in
  let nm = {
    named = (fun i -> if i = 0 then "tbl_head" else if i = 1 then "global_epoch" else if i < 5 then "orphan" ^ string_of_int (i - 2) else "cell" ^ string_of_int (i - 10));
    opname = (function 0 -> "repl" | 1 -> "clear" | 2 -> "read" | 3 -> "hold" | 4 -> "drop" | 5 -> "deref" | _ -> "?");
    resname = (fun r -> match List.map int_of_n r with [0] -> "ok" | [1] -> "lost" | [2] -> "null" | [3; _] -> string_of_n (List.nth r 1) | _ -> "?");
    note = no_note } in
  { init = EbrDefs.init ncells;
    idle = (fun st t -> match st.th (nat_of_int t) with Idle -> true | _ -> false);
    start = (fun st t (name, args) ->
      let n i = n_of_string (List.nth args i) and s i = nat_of_int (int_of_string (List.nth args i)) in
      let o = match name with
        | "repl" -> ORepl (n 0) | "clear" -> OClear (n 0) | "read" -> ORead (n 0) | "hold" -> OHold (n 0, s 1)
        | "drop" -> ODrop (s 0) | "deref" -> ODeref (s 0) | _ -> OExit in
      match EbrDefs.step nslots st (Start (nat_of_int t, o)) with Some (s', _) -> Some s' | None -> None);
    step = (fun st t _ -> EbrDefs.step nslots st (Step (nat_of_int t)));
    pctag = ebr_pctag (fun st -> st.th); nm }
(* the end of a thread's program is its exit: thread_local destruction has no START event *)
let ebr_with_exit (c : case) = { c with prog = Array.mapi (fun i ops -> if i = 0 then ops else ops @ [("exit", [])]) c.prog }

(* ---------------------------------------------------------------- hazard_pointer (C01, C02) *)
let hp_inst (c : case) : HpDefs.state inst =
  let open HpDefs in
  let ncells = nat_of_int (int_of_string (cfg_get c "cells" "2")) in
  let nslots = nat_of_int (int_of_string (cfg_get c "slots" "3")) in
  let nat_of_string s = nat_of_int (int_of_string s) in
  let nm = {
    named = (fun i -> if i = 0 then "tbl_head" else if i = 1 then "nact" else if i = 2 then "abandoned" else "cell" ^ string_of_int (i - 10));
    opname = (function 0 -> "repl" | 1 -> "clear" | 2 -> "read" | 3 -> "hold" | 4 -> "deref" | 5 -> "drop" | 6 -> "exit" | _ -> "?");
    resname = (fun r -> match List.map int_of_n r with [0] -> "ok" | [1] -> "lost" | [2] -> "null" | [3; _] -> string_of_n (List.nth r 1) | [4] -> "throw" | _ -> "?");
    note = no_note;
  } in
  { init = HpDefs.init ncells;
    idle = (fun st t -> match st.th (nat_of_int t) with Idle -> true | _ -> false);
    start = (fun st t (name, args) ->
      let o = match name, args with
        | "repl", [x] -> ORepl (nat_of_string x) | "clear", [x] -> OClear (nat_of_string x) | "read", [x] -> ORead (nat_of_string x)
        | "hold", [x; g] -> OHold (nat_of_string x, nat_of_string g) | "deref", [g] -> ODeref (nat_of_string g)
        | "drop", [g] -> ODrop (nat_of_string g) | _ -> OExit in
      match HpDefs.step nslots st (Start (nat_of_int t, o)) with Some (s', _) -> Some s' | None -> None);
    step = (fun st t _ -> HpDefs.step nslots st (Step (nat_of_int t)));
    pctag = simple_pctag (fun st -> st.th);
    nm }

(* ---------------------------------------------------------------- vyukov_hash_map, one bucket (C10) and with iterators (C11) *)
let vhm_resname sn r = match List.map int_of_n r with
  | [0; 1] -> "new" | [0; 0] -> "old"
  | [1; 1; _] -> "new:" ^ sn r 2 | [1; 0; _] -> "old:" ^ sn r 2
  | [2; 1] -> "ok" | [2; 0] -> "no" | [3; 1; _] -> sn r 2 | [3; 0] -> "no"
  | [4; 1; _] -> sn r 2 | [4; 0] -> "no"
  | [5; 1; _; _] -> sn r 2 ^ "=" ^ sn r 3 | [5; 0] -> "end"
  | [6; 1; _; _; _] -> sn r 2 ^ ">" ^ sn r 3 ^ "=" ^ sn r 4 | [6; 0; _] -> sn r 2 ^ ">end" | [6; 2] -> "end" | [7] -> "ok"
  | _ -> "?"
let vhm_inst (c : case) : VhmDefs.state inst =
  let open VhmDefs in
  let xoff = n_of_string (cfg_get c "xoff" "8256") in
  let sn r i = string_of_n (List.nth r i) in
  let nm = { named = (fun _ -> "?");
    opname = (function 0 -> "ins" | 1 -> "getins" | 2 -> "del" | 3 -> "ext" | 4 -> "get" | _ -> "?");
    resname = vhm_resname sn; note = no_note } in
  let stp st a = VhmDefs.step xoff st a in
  let init =
    let keys = List.filter (fun s -> s <> "") (String.split_on_char '.' (cfg_get c "init" "")) in
    List.fold_left (fun st ks ->
      let k = n_of_string ks in let v = n_of_int (10 * int_of_string ks) in
      let st = ref (match stp st (Start (O, OIns (k, v))) with Some (s', _) -> s' | None -> st) in
      let fuel = ref 1000 in
      while (match !st.th O with Idle -> false | _ -> true) && !fuel > 0 do
        decr fuel; (match stp !st (Step O) with Some (s', _) -> st := s' | None -> fuel := 0) done; !st) VhmDefs.init keys in
  { init;
    idle = (fun st t -> match st.th (nat_of_int t) with Idle -> true | _ -> false);
    start = (fun st t (name, args) ->
      let k = match args with v :: _ -> n_of_string v | [] -> n_of_int 0 in
      let v = match args with _ :: v :: _ -> n_of_string v | [ks] -> n_of_int (10 * int_of_string ks) | _ -> n_of_int 0 in
      let o = match name with "ins" -> OIns (k, v) | "getins" -> OGetIns (k, v) | "del" -> ODel k | "ext" -> OExt k | _ -> OGet k in
      match stp st (Start (nat_of_int t, o)) with Some (s', _) -> Some s' | None -> None);
    step = (fun st t _ -> stp st (Step (nat_of_int t)));
    pctag = simple_pctag (fun st -> st.th); nm }
let vhmit_inst (c : case) : VhmItDefs.state inst =
  let open VhmItDefs in
  let xoff = n_of_string (cfg_get c "xoff" "8256") in
  let sn r i = string_of_n (List.nth r i) in
  let nm = { named = (fun _ -> "?");
    opname = (function 0 -> "ins" | 1 -> "getins" | 2 -> "del" | 3 -> "ext" | 4 -> "get" | 5 -> "itf" | 6 -> "itb" | 7 -> "itn" | 8 -> "itd" | 9 -> "ite" | 10 -> "itr" | _ -> "?");
    resname = vhm_resname sn; note = no_note } in
  let stp st a = VhmItDefs.step xoff st a in
  let init =
    let keys = List.filter (fun s -> s <> "") (String.split_on_char '.' (cfg_get c "init" "")) in
    List.fold_left (fun st ks ->
      let k = n_of_string ks in let v = n_of_int (10 * int_of_string ks) in
      let st = ref (match stp st (Start (O, OIns (k, v))) with Some (s', _) -> s' | None -> st) in
      let fuel = ref 1000 in
      while (match !st.th O with Idle -> false | _ -> true) && !fuel > 0 do
        decr fuel; (match stp !st (Step O) with Some (s', _) -> st := s' | None -> fuel := 0) done; !st) VhmItDefs.init keys in
  { init;
    idle = (fun st t -> match st.th (nat_of_int t) with Idle | ItIdle _ -> true | _ -> false);
    start = (fun st t (name, args) ->
      let k = match args with v :: _ -> n_of_string v | [] -> n_of_int 0 in
      let v = match args with _ :: v :: _ -> n_of_string v | [ks] -> n_of_int (10 * int_of_string ks) | _ -> n_of_int 0 in
      let o = match name with "ins" -> OIns (k, v) | "getins" -> OGetIns (k, v) | "del" -> ODel k | "ext" -> OExt k | "get" -> OGet k
        | "itf" -> OItf k | "itb" -> OItb | "itn" -> OItn | "itd" -> OItd | "ite" -> OIte | _ -> OItr in
      match stp st (Start (nat_of_int t, o)) with Some (s', _) -> Some s' | None -> None);
    step = (fun st t _ -> stp st (Step (nat_of_int t)));
    pctag = simple_pctag (fun st -> st.th); nm }

(* ---------------------------------------------------------------- ramalhete_queue (GC reclaimer, elem=ptr) *)
let ram_inst (c : case) : RamDefs.state inst =
  let open RamDefs in
  let e = n_of_int (int_of_string (cfg_get c "epn" "2")) in
  let r0 = int_of_string (cfg_get c "retries" "0") in
  (* the harness instantiates pop_retries as: epn=1 -> 0|2, epn=2 -> 0|1, epn=3 -> 1, epn=11 -> 0, else 0|2 *)
  let r = n_of_int (match int_of_string (cfg_get c "epn" "2") with
    | 1 -> if r0 = 0 then 0 else 2 | 2 -> if r0 = 0 then 0 else 1 | 3 -> 1 | 11 -> 0 | _ -> if r0 = 0 then 0 else 2) in
  let nm = {
    named = (fun _ -> "?");
    opname = (function 0 -> "push" | 1 -> "pop" | _ -> "?");
    resname = (fun r -> match List.map int_of_n r with [1] -> "ok" | [1; _] -> string_of_n (List.nth r 1) | [0] -> "empty" | _ -> "?");
    note = (fun code args -> match code, args with 120, [h] -> Some ("RETIRE h" ^ string_of_n h ^ "+0") | _ -> None);
  } in
  { init = RamDefs.init;
    idle = (fun st t -> match st.th (nat_of_int t) with Idle -> true | _ -> false);
    start = (fun st t (name, args) ->
      let o = match name, args with "push", [v] -> OPush (n_of_string v) | _ -> OPop in
      match RamDefs.step e r st (Start (nat_of_int t, o)) with Some (s', _) -> Some s' | None -> None);
    step = (fun st t _ -> RamDefs.step e r st (Step (nat_of_int t)));
    pctag = simple_pctag (fun st -> st.th);
    nm }

(* ---------------------------------------------------------------- kirsch_bounded_kfifo_queue (C06) *)
(* the n-th call of utils::random() gets the n-th recorded choice (model draw counter g_nch), 0 when exhausted - as ReplaySched::choice *)
let kfb_inst (c : case) : KfbDefs.state inst =
  let open KfbDefs in
  let k = n_of_int (int_of_string (cfg_get c "k" "2")) and segs = n_of_int (int_of_string (cfg_get c "segs" "2")) in
  let choice st = match List.nth_opt c.choices (int_of_n st.g_nch) with Some x -> n_of_int x | None -> n_of_int 0 in
  let nm = {
    named = (fun _ -> "?");
    opname = (function 0 -> "push" | 1 -> "pop" | _ -> "?");
    resname = (fun r -> match List.map int_of_n r with [1] -> "ok" | [0] -> "full" | [2] -> "empty" | [1; _] -> string_of_n (List.nth r 1) | _ -> "?");
    note = (fun code args -> match code, args with 130, [c; n] -> Some ("CHOICE " ^ string_of_n c ^ " " ^ string_of_n n) | _ -> None);
  } in
  { init = KfbDefs.init;
    idle = (fun st t -> match st.th (nat_of_int t) with Idle -> true | _ -> false);
    start = (fun st t (name, args) ->
      let o = match name, args with "push", [v] -> OPush (n_of_string v) | _ -> OPop in
      match KfbDefs.step k segs st (Start (nat_of_int t, o)) with Some (s', _) -> Some s' | None -> None);
    step = (fun st t _ -> KfbDefs.step k segs st (Step (nat_of_int t, choice st)));
    pctag = simple_pctag (fun st -> st.th);
    nm }

(* ---------------------------------------------------------------- quiescent_state_based reclaimer with the generic client (C01/C02) *)
let qsbr_inst (c : case) : QsbrDefs.state inst =
  let open QsbrDefs in
  let ncells = n_of_int (int_of_string (cfg_get c "cells" "2")) in
  let nslots = nat_of_int (int_of_string (cfg_get c "slots" "3")) in
  (* cfg toff=1: the (wrong) orphan target global_epoch + 1; the code has number_epochs - 1 = 2 *)
  let toff = n_of_int (int_of_string (cfg_get c "toff" "2")) in
  let nm = {
    named = (fun i -> if i = 0 then "tbl_head" else if i = 1 then "global_epoch" else if i = 2 then "abandoned" else "cell" ^ string_of_int (i - 10));
    opname = (function 0 -> "repl" | 1 -> "clear" | 2 -> "read" | 3 -> "hold" | 4 -> "drop" | 5 -> "deref" | 6 -> "enter" | 7 -> "leave" | _ -> "?");
    resname = (fun r -> match List.map int_of_n r with [0] -> "ok" | [1] -> "lost" | [2] -> "null" | [3; _] -> string_of_n (List.nth r 1) | _ -> "?");
    note = no_note } in
  { init = QsbrDefs.init ncells;
    idle = (fun st t -> match st.th (nat_of_int t) with Idle -> true | _ -> false);
    start = (fun st t (name, args) ->
      let n i = n_of_string (List.nth args i) and s i = nat_of_int (int_of_string (List.nth args i)) in
      let o = match name with
        | "repl" -> ORepl (n 0) | "clear" -> OClear (n 0) | "read" -> ORead (n 0) | "hold" -> OHold (n 0, s 1)
        | "drop" -> ODrop (s 0) | "deref" -> ODeref (s 0) | "enter" -> OEnter | "leave" -> OLeave | _ -> OExit in
      match QsbrDefs.step_gen toff nslots st (Start (nat_of_int t, o)) with Some (s', _) -> Some s' | None -> None);
    step = (fun st t _ -> QsbrDefs.step_gen toff nslots st (Step (nat_of_int t)));
    pctag = (fun st t -> let p = st.th (nat_of_int t) in if Obj.is_int (Obj.repr p) then "i" ^ string_of_int (Obj.magic p : int) else string_of_int (Obj.tag (Obj.repr p))); nm }

(* ---------------------------------------------------------------- lock_free_ref_count reclaimer with the generic client (C01/C02) *)
let lfrc_inst (c : case) : LfrcDefs.state inst =
  let open LfrcDefs in
  let ncells = nat_of_int (int_of_string (cfg_get c "cells" "2")) in
  let nslots = nat_of_int (int_of_string (cfg_get c "slots" "3")) in
  let nat_of_string s = nat_of_int (int_of_string s) in
  let nm = {
    named = (fun i -> if i = 0 then "free_head" else "cell" ^ string_of_int (i - 10));
    opname = (function 0 -> "repl" | 1 -> "clear" | 2 -> "read" | 3 -> "hold" | 4 -> "drop" | 5 -> "deref" | _ -> "?");
    resname = (fun r -> match List.map int_of_n r with [0] -> "ok" | [1] -> "lost" | [2] -> "null" | [3; _] -> string_of_n (List.nth r 1) | _ -> "?");
    note = no_note } in
  { init = LfrcDefs.init ncells;
    idle = (fun st t -> match st.th (nat_of_int t) with Idle -> true | _ -> false);
    start = (fun st t (name, args) ->
      let o = match name, args with
        | "repl", [x] -> ORepl (nat_of_string x) | "clear", [x] -> OClear (nat_of_string x) | "read", [x] -> ORead (nat_of_string x)
        | "hold", [x; g] -> OHold (nat_of_string x, nat_of_string g) | "deref", [g] -> ODeref (nat_of_string g)
        | "drop", [g] -> ODrop (nat_of_string g) | _ -> OExit in
      match LfrcDefs.step nslots st (Start (nat_of_int t, o)) with Some (s', _) -> Some s' | None -> None);
    step = (fun st t _ -> LfrcDefs.step nslots st (Step (nat_of_int t)));
    pctag = (fun st t -> let p = st.th (nat_of_int t) in if Obj.is_int (Obj.repr p) then "i" ^ string_of_int (Obj.magic p : int) else string_of_int (Obj.tag (Obj.repr p))); nm }

(* ---------------------------------------------------------------- nikolaev_bounded_queue (two SCQ index rings; C05) *)
let nikb_inst (c : case) : NikbDefs.state inst =
  let open NikbDefs in
  let rec npow2 p c = if p >= c then p else npow2 (2 * p) c in
  let cap = n_of_int (npow2 1 (int_of_string (cfg_get c "cap" "2"))) in
  (* the harness instantiates pop_retries as 0 (retries=0) or 2 (otherwise) *)
  let r = n_of_int (if int_of_string (cfg_get c "retries" "2") = 0 then 0 else 2) in
  (* cfg old=1: the code before the repair of nikolaev_scq (only for replaying the recorded defect) *)
  let stp = if cfg_get c "old" "0" = "1" then NikbDefs.step_old else NikbDefs.step in
  let nm = { named = (fun _ -> "?");
    opname = (function 0 -> "push" | 1 -> "pop" | 2 -> "tpop" | _ -> "?");
    resname = (fun r -> match List.map int_of_n r with [1] -> "ok" | [1; _] -> string_of_n (List.nth r 1) | [0] -> "full" | [3] -> "empty" | _ -> "?");
    note = no_note } in
  { init = NikbDefs.init cap;
    idle = (fun st t -> match st.th (nat_of_int t) with Idle -> true | _ -> false);
    start = (fun st t (name, args) ->
      let o = match name, args with "push", [v] -> OPush (n_of_string v) | "tpop", _ -> OPop true | _ -> OPop false in
      match stp cap r st (Start (nat_of_int t, o)) with Some (s', _) -> Some s' | None -> None);
    step = (fun st t _ -> stp cap r st (Step (nat_of_int t)));
    pctag = simple_pctag (fun st -> st.th); nm }

(* ---------------------------------------------------------------- kirsch_kfifo_queue (C06, unbounded) *)
(* the n-th call of utils::random() gets the n-th recorded choice (model draw counter g_nch), 0 when exhausted - as ReplaySched::choice *)
let kfq_inst (c : case) : KfqDefs.state inst =
  let open KfqDefs in
  let k = n_of_int (int_of_string (cfg_get c "k" "2")) in
  let choice st = match List.nth_opt c.choices (int_of_n st.g_nch) with Some x -> n_of_int x | None -> n_of_int 0 in
  let nm = {
    named = (fun _ -> "?");
    opname = (function 0 -> "push" | 1 -> "pop" | _ -> "?");
    resname = (fun r -> match List.map int_of_n r with [1] -> "ok" | [2] -> "empty" | [1; _] -> string_of_n (List.nth r 1) | _ -> "?");
    note = (fun code args -> match code, args with
      | 130, [c; n] -> Some ("CHOICE " ^ string_of_n c ^ " " ^ string_of_n n)
      | 120, [h] -> Some ("RETIRE h" ^ string_of_n h ^ "+0")
      | _ -> None);
  } in
  { init = KfqDefs.init;
    idle = (fun st t -> match st.th (nat_of_int t) with Idle -> true | _ -> false);
    start = (fun st t (name, args) ->
      let o = match name, args with "push", [v] -> OPush (n_of_string v) | _ -> OPop in
      match KfqDefs.step k st (Start (nat_of_int t, o)) with Some (s', _) -> Some s' | None -> None);
    step = (fun st t _ -> KfqDefs.step k st (Step (nat_of_int t, choice st)));
    pctag = simple_pctag (fun st -> st.th);
    nm }

(* ---------------------------------------------------------------- hazard_eras<static_strategy<3>> with the generic client (C01/C02) *)
let he_inst (c : case) : HeDefs.state inst =
  let open HeDefs in
  let ncells = nat_of_int (int_of_string (cfg_get c "cells" "2")) in
  let nslots = nat_of_int (int_of_string (cfg_get c "slots" "3")) in
  let nat_of_string s = nat_of_int (int_of_string s) in
  let nm = {
    named = (fun i -> if i = 0 then "tbl_head" else if i = 1 then "nact" else if i = 2 then "abandoned" else if i = 3 then "era_clock" else "cell" ^ string_of_int (i - 10));
    opname = (function 0 -> "repl" | 1 -> "clear" | 2 -> "read" | 3 -> "hold" | 4 -> "deref" | 5 -> "drop" | 6 -> "exit" | _ -> "?");
    resname = (fun r -> match List.map int_of_n r with [0] -> "ok" | [1] -> "lost" | [2] -> "null" | [3; _] -> string_of_n (List.nth r 1) | [4] -> "throw" | _ -> "?");
    note = no_note;
  } in
  { init = HeDefs.init ncells;
    idle = (fun st t -> match st.th (nat_of_int t) with Idle -> true | _ -> false);
    start = (fun st t (name, args) ->
      let o = match name, args with
        | "repl", [x] -> ORepl (nat_of_string x) | "clear", [x] -> OClear (nat_of_string x) | "read", [x] -> ORead (nat_of_string x)
        | "hold", [x; g] -> OHold (nat_of_string x, nat_of_string g) | "deref", [g] -> ODeref (nat_of_string g)
        | "drop", [g] -> ODrop (nat_of_string g) | _ -> OExit in
      match HeDefs.step nslots st (Start (nat_of_int t, o)) with Some (s', _) -> Some s' | None -> None);
    step = (fun st t _ -> HeDefs.step nslots st (Step (nat_of_int t)));
    pctag = simple_pctag (fun st -> st.th);
    nm }

(* ---------------------------------------------------------------- harris_michael_hash_map (GC reclaimer): map operations and iterators (C08, C09) *)
let hmm_inst (c : case) : HmmDefs.state inst =
  let open HmmDefs in
  let nb = n_of_int (match int_of_string (cfg_get c "buckets" "1") with 1 -> 1 | 2 -> 2 | 4 -> 4 | _ -> 8) in
  let memo = cfg_get c "memo" "0" <> "0" in
  let lex = cfg_get c "lex" "1" <> "0" in   (* lex=0: the former greater_or_equal (hash >= h && key >= k), regression witness only *)
  let hf = match cfg_get c "hash" "id" with "const" -> hf_const | "mod2" -> hf_mod2 | "rev" -> hf_rev | _ -> hf_id in
  let pos = function [0] -> "end" | [1; k] -> string_of_int k | _ -> "?" in
  let nm = {
    named = (fun _ -> "?");
    opname = (function 0 -> "ins" | 1 -> "getins" | 2 -> "del" | 3 -> "has" | 4 -> "find" | 5 -> "itb" | 6 -> "itf" | 7 -> "itn"
                     | 8 -> "itd" | 9 -> "ite" | 10 -> "itr" | _ -> "?");
    resname = (fun r -> match List.map int_of_n r with
      | [0; 1] -> "new" | [0; 0] -> "old"
      | [1; b; k; v] -> if v <> 10 * k then "BADVAL" else if b = 1 then "new" else "old"
      | [2; 1] -> "ok" | [2; 0] -> "no" | [3; 1] -> "yes" | [3; 0] -> "no"
      | [9; 0] -> "end" | 9 :: 1 :: was :: p -> string_of_int was ^ ">" ^ pos p
      | [10] -> "ok"
      | (4 | 5 | 6 | 7 | 8) :: p -> pos p
      | _ -> "?");
    note = (fun code args -> match code, args with 120, [h] -> Some ("RETIRE h" ^ string_of_n h ^ "+0") | _ -> None);
  } in
  let stp st a = HmmDefs.step nb memo lex hf st a in
  { init = HmmDefs.init nb;
    idle = (fun st t -> match st.th (nat_of_int t) with Idle -> true | _ -> false);
    start = (fun st t (name, args) ->
      let k = match args with v :: _ -> n_of_string v | [] -> n_of_int 0 in
      let v = match args with _ :: v :: _ -> n_of_string v | [ks] -> n_of_int (10 * int_of_string ks) | _ -> n_of_int 0 in
      let o = match name with
        | "ins" -> OIns (k, v) | "getins" -> OGet (k, v) | "del" -> ODel k | "has" -> OHas k | "find" -> OFind k
        | "itb" -> OItB | "itf" -> OItF k | "itn" -> OItN | "itd" -> OItD | "ite" -> OItE | _ -> OItR in
      match stp st (Start (nat_of_int t, o)) with Some (s', _) -> Some s' | None -> None);
    step = (fun st t _ -> stp st (Step (nat_of_int t)));
    pctag = simple_pctag (fun st -> st.th);
    nm }

(* ---------------------------------------------------------------- vyukov_hash_map with several buckets and grow (C10) *)
let vhmgrow_inst (c : case) : VhmGrowDefs.state inst =
  let open VhmGrowDefs in
  let cap0 = int_of_string (cfg_get c "cap" "1") in
  let cap = let rec p2 n = if n >= cap0 then n else p2 (2 * n) in n_of_int (p2 1) in   (* utils::next_power_of_two *)
  let hash = match cfg_get c "hash" "id" with
    | "const" -> (fun _ -> n_of_int 7)
    | "mod2" -> (fun k -> n_of_int (int_of_n k mod 2))
    | "mod4" -> (fun k -> n_of_int (int_of_n k mod 4))
    | _ -> (fun k -> k) in
  let sn r i = string_of_n (List.nth r i) in
  let nm = { named = (fun _ -> "?");
    opname = (function 0 -> "ins" | 1 -> "getins" | 2 -> "del" | 3 -> "ext" | 4 -> "get" | _ -> "?");
    resname = vhm_resname sn;
    note = (fun code args -> match code, args with 120, [h] -> Some ("RETIRE h" ^ string_of_n h ^ "+0") | _ -> None) } in
  let stp st a = VhmGrowDefs.step hash st a in
  let init =
    let keys = List.filter (fun s -> s <> "") (String.split_on_char '.' (cfg_get c "init" "")) in
    List.fold_left (fun st ks ->
      let k = n_of_string ks in let v = n_of_int (10 * int_of_string ks) in
      let st = ref (match stp st (Start (O, OIns (k, v))) with Some (s', _) -> s' | None -> st) in
      let fuel = ref 100000 in
      while (match !st.th O with Idle -> false | _ -> true) && !fuel > 0 do
        decr fuel; (match stp !st (Step O) with Some (s', _) -> st := s' | None -> fuel := 0) done; !st) (VhmGrowDefs.init cap) keys in
  { init;
    idle = (fun st t -> match st.th (nat_of_int t) with Idle -> true | _ -> false);
    start = (fun st t (name, args) ->
      let k = match args with v :: _ -> n_of_string v | [] -> n_of_int 0 in
      let v = match args with _ :: v :: _ -> n_of_string v | [ks] -> n_of_int (10 * int_of_string ks) | _ -> n_of_int 0 in
      let o = match name with "ins" -> OIns (k, v) | "getins" -> OGetIns (k, v) | "del" -> ODel k | "ext" -> OExt k | _ -> OGet k in
      match stp st (Start (nat_of_int t, o)) with Some (s', _) -> Some s' | None -> None);
    step = (fun st t _ -> stp st (Step (nat_of_int t)));
    pctag = simple_pctag (fun st -> st.th); nm }

(* ---------------------------------------------------------------- nikolaev_queue (C04, unbounded) *)
let nikq_inst (c : case) : NikqDefs.qstate inst =
  let open NikqDefs in
  let epn = int_of_string (cfg_get c "epn" "2") in
  let cap = n_of_int (if epn = 1 then 1 else if epn = 2 then 2 else 4) in
  let r0 = int_of_string (cfg_get c "retries" "0") in
  (* the harness instantiates pop_retries as: epn=1 -> 0|2, epn=2 -> 0|1, else 0|2 *)
  let r = n_of_int (match epn with 1 -> if r0 = 0 then 0 else 2 | 2 -> if r0 = 0 then 0 else 1 | _ -> if r0 = 0 then 0 else 2) in
  let nm = { named = (fun _ -> "?");
    opname = (function 0 -> "push" | 1 -> "pop" | 2 -> "tpop" | _ -> "?");
    resname = (fun r -> match List.map int_of_n r with [1] -> "ok" | [1; _] -> string_of_n (List.nth r 1) | [0] -> "empty" | _ -> "?");
    note = (fun code args -> match code, args with 120, [h] -> Some ("RETIRE h" ^ string_of_n h ^ "+0") | _ -> None) } in
  { init = NikqDefs.qinit cap;
    idle = (fun st t -> match st.oth (nat_of_int t) with OIdle -> true | _ -> false);
    start = (fun st t (name, args) ->
      let o = match name, args with "push", [v] -> NikbDefs.OPush (n_of_string v) | "tpop", _ -> NikbDefs.OPop true | _ -> NikbDefs.OPop false in
      match NikqDefs.qstep cap r st (NikbDefs.Start (nat_of_int t, o)) with Some (s', _) -> Some s' | None -> None);
    step = (fun st t _ -> NikqDefs.qstep cap r st (NikbDefs.Step (nat_of_int t)));
    pctag = (fun st t -> let p = st.oth (nat_of_int t) in
      let o = if Obj.is_int (Obj.repr p) then "i" ^ string_of_int (Obj.magic p : int) else string_of_int (Obj.tag (Obj.repr p)) in
      let inner n = let q = (st.nd n).NikbDefs.th (nat_of_int t) in if Obj.is_int (Obj.repr q) then "i" ^ string_of_int (Obj.magic q : int) else string_of_int (Obj.tag (Obj.repr q)) in
      (match p with
       | PIn (_, n) | PRe (_, n) | QIn1 (n, _) | QIn2 (n, _) -> o ^ "." ^ inner n
       | PSt (_, m, _) | PDel (_, m, _) -> o ^ "." ^ inner m
       | _ -> o));
    nm }

(* generic_epoch_based reclaimer, every configuration. cfg keys: recl=EBR|NEBR|DEBRA|EBR0|GEBR_lazy|GEBR_n2|GEBR_aband|GEBR_thresh|GEBR_t0|EBR100,
   or trait by trait (overrides the alias): sf=<n> scan=all|one|n<N> abandon=never|always|thresh<T> region=none|eager|lazy *)
let gebr_config (c : case) : GebrDefs.config =
  let open GebrDefs in
  let mk f sc ab re = { scan_freq = nat_of_int f; scan_strat = sc; aband = ab; rext = re } in
  let base = match cfg_get c "recl" "EBR" with
    | "EBR" -> mk 1 ScanAll ANever RNone | "NEBR" -> mk 1 ScanAll ANever REager | "DEBRA" -> mk 1 (ScanN (nat_of_int 1)) ANever RNone
    | "EBR0" -> mk 0 ScanAll ANever RNone | "GEBR_lazy" -> mk 1 ScanAll ANever RLazy | "GEBR_n2" -> mk 0 (ScanN (nat_of_int 2)) ANever RNone
    | "GEBR_aband" -> mk 1 ScanAll AAlways RNone | "GEBR_thresh" -> mk 1 ScanAll (AThresh (nat_of_int 1)) REager
    | "GEBR_t0" -> mk 1 ScanAll (AThresh (nat_of_int 0)) RNone | "EBR100" -> mk 100 ScanAll ANever RNone
    | s -> prerr_endline ("unknown reclaimer alias " ^ s); exit 2 in
  let num s i = nat_of_int (int_of_string (String.sub s i (String.length s - i))) in
  let sf = match cfg_get c "sf" "" with "" -> base.scan_freq | s -> nat_of_int (int_of_string s) in
  let sc = match cfg_get c "scan" "" with "" -> base.scan_strat | "all" -> ScanAll | "one" -> ScanN (nat_of_int 1) | s -> ScanN (num s 1) in
  let ab = match cfg_get c "abandon" "" with "" -> base.aband | "never" -> ANever | "always" -> AAlways | s -> AThresh (num s 6) in
  let re = match cfg_get c "region" "" with "" -> base.rext | "none" -> RNone | "eager" -> REager | "lazy" -> RLazy | s -> prerr_endline ("unknown region extension " ^ s); exit 2 in
  { scan_freq = sf; scan_strat = sc; aband = ab; rext = re }
let gebr_inst (c : case) : GebrDefs.state inst =
  let open GebrDefs in
  let ncells = n_of_int (int_of_string (cfg_get c "cells" "2")) in
  let nslots = nat_of_int (int_of_string (cfg_get c "slots" "3")) in
  let cfg = gebr_config c in
  let nm = {
    named = (fun i -> if i = 0 then "tbl_head" else if i = 1 then "global_epoch" else if i < 5 then "orphan" ^ string_of_int (i - 2) else "cell" ^ string_of_int (i - 10));
    opname = (function 0 -> "repl" | 1 -> "clear" | 2 -> "read" | 3 -> "hold" | 4 -> "drop" | 5 -> "deref" | 6 -> "enter" | 7 -> "leave" | _ -> "?");
    resname = (fun r -> match List.map int_of_n r with [0] -> "ok" | [1] -> "lost" | [2] -> "null" | [3; _] -> string_of_n (List.nth r 1) | _ -> "?");
    note = no_note } in
  { init = GebrDefs.init ncells;
    idle = (fun st t -> match st.th (nat_of_int t) with Idle -> true | _ -> false);
    start = (fun st t (name, args) ->
      let n i = n_of_string (List.nth args i) and s i = nat_of_int (int_of_string (List.nth args i)) in
      let o = match name with
        | "repl" -> ORepl (n 0) | "clear" -> OClear (n 0) | "read" -> ORead (n 0) | "hold" -> OHold (n 0, s 1)
        | "drop" -> ODrop (s 0) | "deref" -> ODeref (s 0) | "enter" -> OEnter | "leave" -> OLeave | _ -> OExit in
      match GebrDefs.step cfg nslots st (Start (nat_of_int t, o)) with Some (s', _) -> Some s' | None -> None);
    step = (fun st t _ -> GebrDefs.step cfg nslots st (Step (nat_of_int t)));
    pctag = (fun st t -> let p = st.th (nat_of_int t) in if Obj.is_int (Obj.repr p) then "i" ^ string_of_int (Obj.magic p : int) else string_of_int (Obj.tag (Obj.repr p))); nm }

(* ---------------------------------------------------------------- stamp_it reclaimer with the generic client (C01/C02) *)
let stamp_inst (c : case) : StampDefs.state inst =
  let open StampDefs in
  let ncells = n_of_int (int_of_string (cfg_get c "cells" "2")) in
  let nslots = nat_of_int (int_of_string (cfg_get c "slots" "3")) in
  let nm = {
    named = (fun i -> if i = 0 then "tbl_head" else if i = 1 then "global_retired" else if i = 2 then "head" else if i = 3 then "tail" else "cell" ^ string_of_int (i - 10));
    opname = (function 0 -> "repl" | 1 -> "clear" | 2 -> "read" | 3 -> "hold" | 4 -> "drop" | 5 -> "deref" | 6 -> "enter" | 7 -> "leave" | _ -> "?");
    resname = (fun r -> match List.map int_of_n r with [0] -> "ok" | [1] -> "lost" | [2] -> "null" | [3; _] -> string_of_n (List.nth r 1) | _ -> "?");
    note = no_note } in
  { init = StampDefs.init ncells;
    idle = (fun st t -> match st.th (nat_of_int t) with Idle -> true | _ -> false);
    start = (fun st t (name, args) ->
      let n i = n_of_string (List.nth args i) and s i = nat_of_int (int_of_string (List.nth args i)) in
      let o = match name with
        | "repl" -> ORepl (n 0) | "clear" -> OClear (n 0) | "read" -> ORead (n 0) | "hold" -> OHold (n 0, s 1)
        | "drop" -> ODrop (s 0) | "deref" -> ODeref (s 0) | "enter" -> OEnter | "leave" -> OLeave | _ -> OExit in
      match StampDefs.step nslots st (Start (nat_of_int t, o)) with Some (s', _) -> Some s' | None -> None);
    step = (fun st t _ -> StampDefs.step nslots st (Step (nat_of_int t)));
    pctag = (fun st t -> let p = st.th (nat_of_int t) in
      let tg x = if Obj.is_int (Obj.repr x) then "i" ^ string_of_int (Obj.magic x : int) else string_of_int (Obj.tag (Obj.repr x)) in
      match p with Rm (q, _) -> "rm" ^ tg q | _ -> tg p); nm }

let () =
  let model = Sys.argv.(1) and cmd = Sys.argv.(2) and path = Sys.argv.(3) in
  let c = parse_case path in
  let c = if model = "ebr" || model = "qsbr" || model = "lfrc" || model = "gebr" || model = "stamp" then ebr_with_exit c else c in
  let go inst =
    match cmd with
    | "run" ->
      let (_, skipped, covered, remaining) = run_sched inst c c.sched (fun l -> print_endline ("TRACE " ^ l)) in
      let left = Array.fold_left (fun a r -> a + List.length !r) 0 remaining in
      Printf.printf "MODEL-END skipped=%d ops_left=%d pcs=%d\n" skipped left (Hashtbl.length covered)
    | "gen" ->
      let n = int_of_string Sys.argv.(4) and seed = int_of_string Sys.argv.(5) in
      let rng = Random.State.make [| seed |] in
      let allcov = Hashtbl.create 64 in
      for k = 1 to n do
        let s = gen_schedule inst c rng (10 + 20 * (k mod 4)) 5000 in
        let (_, _, covered, _) = run_sched inst c s (fun _ -> ()) in
        Hashtbl.iter (fun k _ -> Hashtbl.replace allcov k ()) covered;
        print_endline ("SCHED " ^ String.concat " " (List.map string_of_int s))
      done;
      Printf.printf "COVERED %d\n" (Hashtbl.length allcov)
    | _ -> prerr_endline "unknown command"; exit 2 in
  match model with
  | "chase" -> go (chase_inst c)
  | "seqlock" -> go (seqlock_inst c)
  | "lr" -> go (lr_inst c)
  | "vyu" -> go (vyu_inst c)
  | "msq" -> go (msq_inst c)
  | "tbl" -> go (tbl_inst c)
  | "hml" -> go (hml_inst c)
  | "hmlit" -> go (hmlit_inst c)
  | "ebr" -> go (ebr_inst c)
  | "hp" -> go (hp_inst c)
  | "vhm" -> go (vhm_inst c)
  | "vhmit" -> go (vhmit_inst c)
  | "ram" -> go (ram_inst c)
  | "kfb" -> go (kfb_inst c)
  | "qsbr" -> go (qsbr_inst c)
  | "lfrc" -> go (lfrc_inst c)
  | "nikb" -> go (nikb_inst c)
  | "kfq" -> go (kfq_inst c)
  | "he" -> go (he_inst c)
  | "hmm" -> go (hmm_inst c)
  | "vhmgrow" -> go (vhmgrow_inst c)
  | "nikq" -> go (nikq_inst c)
  | "gebr" -> go (gebr_inst c)
  | "stamp" -> go (stamp_inst c)
  | _ -> prerr_endline ("unknown model " ^ model); exit 2
