(* stamp_explore.ml - random exploration of the extracted stamp_it model (coq/Model/StampDefs.v) with state monitors:
   the invariants of the thread order queue that are NOT proved in Coq (Proof/StampInv.v says what is) are checked after
   every step of random client programs under random schedules:
     - the stamp of tail is at most the stamp of every block inside a critical region ([Tinv] of Proof/StampGuards.v)
     - the prev chain from head reaches tail, contains every block inside a critical region in decreasing stamp order and
       no block whose remove has returned; head->prev / tail->next are never marked; at rest head->prev = tail, tail->next = head
     - tail->next points to head or to a linked block without NotInList whose prev points to tail
     - the interval invariant of the prev list with the ghosts g_lo / g_hi ("no block inside a critical region has a stamp
       strictly between g_lo x and g_hi x") and what the pushing / removing threads know about their local variables
       (hlo / hgm, flo, fnlo / fnhi), see the header of Model/StampDefs.v
     - no thread is ever stuck (no null pointer is dereferenced), no use after free
   build (after the extraction of StampDefs.step_gen into ocaml/gen):
     cd /verif/ocaml && ocamlfind ocamlopt -w -a -I gen $(ocamlfind ocamldep -sort -I gen gen/*.ml gen/*.mli) stamp_explore.ml -o ../build/stamp_explore
   run:   ../build/stamp_explore <seed> <runs> <threads> <ops per thread> <switch percentage>     (OPT=0: step_gen false)
   e.g.   ../build/stamp_explore 11 30000 3 8 50        prints "runs R steps S violations V" and every violated monitor once
   exhaustive mode (all schedules of a fixed program, visited states hashed):
          ../build/stamp_explore exhaust <max states> <cells> <slots> "op op .." "op op .." ..    one string per thread,
          ops: read,c repl,c clear,c hold,c,g drop,g deref,g enter leave
   e.g.   ../build/stamp_explore exhaust 14000000 1 1 "read,0" "read,0"            3.6e6 states, 7.1e6 transitions
          ../build/stamp_explore exhaust 14000000 1 1 "repl,0" "hold,0,0 drop,0"   6.0e6 states *)
module List = Stdlib.List
module String = Stdlib.String
open BinNums
open Datatypes
open StampDefs

let rec pos_of_int i = if i = 1 then Coq_xH else if i land 1 = 1 then Coq_xI (pos_of_int (i lsr 1)) else Coq_xO (pos_of_int (i lsr 1))
let n_of_int i = if i = 0 then N0 else Npos (pos_of_int i)
let rec int_of_pos = function Coq_xH -> 1 | Coq_xO p -> 2 * int_of_pos p | Coq_xI p -> 2 * int_of_pos p + 1
let int_of_n = function N0 -> 0 | Npos p -> int_of_pos p
let rec nat_of_int i = if i = 0 then O else S (nat_of_int (i - 1))
let rec int_of_nat = function O -> 0 | S n -> 1 + int_of_nat n

let cst v = ((v + 2) / 4) * 4
let stamp st x = int_of_n (st.qstamp x)
let blocks st = List.map int_of_n st.blist
let tcb_name = function THead -> "head" | TTail -> "tail" | TB b -> "b" ^ string_of_int (int_of_n b)
let mp_str (p, m) = (match p with None -> "null" | Some x -> tcb_name x) ^ "^" ^ string_of_int (int_of_n m)

let rpt_name = function
  | R1 -> "R1" | R2 -> "R2" | R3 -> "R3" | R4 -> "R4" | RP1 -> "RP1" | RPA -> "RPA" | RP2 -> "RP2" | RP3 -> "RP3" | RP4 -> "RP4"
  | RP5 -> "RP5" | RP6 -> "RP6" | RP7 -> "RP7" | RP9 -> "RP9" | RP10 -> "RP10" | RN1 -> "RN1" | RN2 -> "RN2" | RN3 -> "RN3"
  | RN4 -> "RN4" | RN5 -> "RN5" | RN6 -> "RN6" | RN7 -> "RN7" | RN8 -> "RN8" | RN9 -> "RN9" | RN10 -> "RN10" | RN11 -> "RN11"
  | MN1 w -> "MN1" ^ string_of_bool w | MN2 w -> "MN2" ^ string_of_bool w | MN3 w -> "MN3" ^ string_of_bool w
  | RS1 -> "RS1" | RS2 -> "RS2" | RS3 -> "RS3" | SV1 -> "SV1" | SV2 -> "SV2" | SV3 -> "SV3" | RM1 -> "RM1" | RM2 -> "RM2" | RM3 -> "RM3"
let pc_name = function
  | Idle -> "Idle" | Begin _ -> "Begin" | A1 _ -> "A1" | C1 _ -> "C1" | C2 _ -> "C2" | C3 _ -> "C3" | C4 _ -> "C4" | C5 _ -> "C5" | C6 _ -> "C6"
  | P1 _ -> "P1" | P2 _ -> "P2" | P3 _ -> "P3" | P4 (_, hp) -> "P4 hp=" ^ mp_str hp | P5 (_, hp) -> "P5 hp=" ^ mp_str hp
  | P6 (_, hp, s) -> "P6 hp=" ^ mp_str hp ^ " s=" ^ string_of_int (int_of_n s)
  | P7 (_, hp, s) -> "P7 hp=" ^ mp_str hp ^ " s=" ^ string_of_int (int_of_n s)
  | P8 (_, hp, s) -> "P8 hp=" ^ mp_str hp ^ " s=" ^ string_of_int (int_of_n s)
  | P9 (_, hp, s, _) -> "P9 hp=" ^ mp_str hp ^ " s=" ^ string_of_int (int_of_n s)
  | P10 (_, hp, s, my) -> "P10 hp=" ^ mp_str hp ^ " s=" ^ string_of_int (int_of_n s) ^ " my=" ^ mp_str my
  | P11 (_, s, my) -> "P11 s=" ^ string_of_int (int_of_n s) | P12 _ -> "P12" | P13 _ -> "P13" | P14 _ -> "P14" | A2 _ -> "A2" | R3c _ -> "R3c" | RT1 _ -> "RT1"
  | Rm (p, f) -> Printf.sprintf "Rm %s prev=%s next=%s last=%s ms=%d pp=%s pst=%d np=%s nst=%d link=%s nl=%b" (rpt_name p) (mp_str f.fprev) (mp_str f.fnext) (mp_str f.flast)
                   (int_of_n f.fms) (mp_str f.fpp) (int_of_n f.fpst) (mp_str f.fnp) (int_of_n f.fnst) (mp_str f.flink) f.fnl
  | UT1 (_, s) -> "UT1 s=" ^ string_of_int (int_of_n s) | UT2 (_, s, l) -> "UT2 s=" ^ string_of_int (int_of_n s) ^ " last=" ^ mp_str l
  | UT3 (_, s, l, lp) -> "UT3 s=" ^ string_of_int (int_of_n s) ^ " last=" ^ mp_str l ^ " lp=" ^ mp_str lp
  | UT4 (_, s, l, lp, ls) -> "UT4 s=" ^ string_of_int (int_of_n s) ^ " last=" ^ mp_str l ^ " lp=" ^ mp_str lp ^ " ls=" ^ string_of_int (int_of_n ls)
  | UT5 (_, s, lp, ls) -> "UT5 s=" ^ string_of_int (int_of_n s) | UT6 (_, s) -> "UT6 s=" ^ string_of_int (int_of_n s)
  | UT7 (_, s, ts) -> "UT7 s=" ^ string_of_int (int_of_n s) ^ " ts=" ^ string_of_int (int_of_n ts)
  | PL1 _ -> "PL1" | PG1 _ -> "PG1" | PG2 _ -> "PG2" | PG3 _ -> "PG3" | PG4 _ -> "PG4" | AG1 _ -> "AG1" | AG2 _ -> "AG2" | X1 -> "X1"

let dump st nth =
  let b = Buffer.create 256 in
  let line x = Buffer.add_string b (Printf.sprintf "  %s: prev=%s next=%s stamp=%d\n" (tcb_name x) (mp_str (st.qprev x)) (mp_str (st.qnext x)) (stamp st x)) in
  line THead; line TTail;
  List.iter (fun i -> line (TB (n_of_int i));
    Buffer.add_string b (Printf.sprintf "     reg=%b lk=%b owner=%s\n" (st.g_reg (n_of_int i)) (st.g_lk (n_of_int i))
      (match st.g_owner (n_of_int i) with Some t -> string_of_int (int_of_nat t) | None -> "-"))) (blocks st);
  for t = 1 to nth do
    let x = st.tl (nat_of_int t) in
    Buffer.add_string b (Printf.sprintf "  T%d: %s   cb=%s nest=%d\n" t (pc_name (st.th (nat_of_int t)))
      (match x.cb with Some c -> string_of_int (int_of_n c) | None -> "-") (int_of_nat x.nest)) done;
  Buffer.contents b

(* the prev chain from head *)
let chain st =
  let rec go x acc fuel =
    if fuel = 0 then (List.rev acc, false) else
    match fst (st.qprev x) with
    | Some TTail -> (List.rev acc, true)
    | Some y -> go y (y :: acc) (fuel - 1)
    | None -> (List.rev acc, false) in
  go THead [] (List.length st.blist + 3)

(* the program point of the owner of block b *)
let owner_pc st b = match st.g_owner (n_of_int b) with Some t -> Some (st.th t) | None -> None


let regs st = List.filter_map (fun b -> if st.g_reg (n_of_int b) then Some (cst (stamp st (TB (n_of_int b)))) else None) (blocks st)
let regfree st lo hi = List.for_all (fun r -> not (lo < r && r < hi)) (regs st)
let sigma st = function Some TTail -> 0 | Some THead -> max_int | Some (TB b) -> cst (stamp st (TB b)) | None -> 0
let glo st x = int_of_n (st.g_lo x)
let ghi st x = match x with THead -> max_int | _ -> int_of_n (st.g_hi x)
let cells st = THead :: List.map (fun b -> TB (n_of_int b)) (blocks st)
let ptr (p, _) = p
let mk (_, m) = int_of_n m
let first_some l = List.fold_left (fun a f -> match a with Some _ -> a | None -> f ()) None l
let forall_cells st f = first_some (List.map (fun x () -> f x) (cells st))
let chk c msg = if c then None else Some msg
let gmax st = int_of_n st.g_max
let sB st b = cst (stamp st (TB b))

let cell_monitors : (string * (state -> int -> string option)) list = [
  ("K: regfree (g_lo x) (g_hi x)", (fun st _ -> forall_cells st (fun x -> chk (regfree st (glo st x) (ghi st x)) (tcb_name x))));
  ("GC: prev -> tail implies g_lo = 0", (fun st _ -> forall_cells st (fun x -> chk (not (ptr (st.qprev x) = Some TTail) || glo st x = 0) (tcb_name x))));
  ("MON1: g_lo x <= S(target)", (fun st _ -> forall_cells st (fun x -> match ptr (st.qprev x) with Some (TB y) -> chk (glo st x <= sB st y) (tcb_name x) | _ -> None)));
  ("MON2: g_lo x <= g_hi target", (fun st _ -> forall_cells st (fun x -> match ptr (st.qprev x) with Some (TB y) -> chk (glo st x <= ghi st (TB y)) (tcb_name x) | _ -> None)));
  ("HI: a stamp-valued g_hi is unique and <= g_max", (fun st _ -> forall_cells st (fun x -> match x with
      | TB xb -> let h = ghi st x in if h mod 4 = 0 && h <> 0 then
          chk (h <= gmax st && List.for_all (fun b -> not (st.g_lk (n_of_int b) && sB st (n_of_int b) = h) || n_of_int b = xb) (blocks st)) (tcb_name x) else None
      | _ -> None)));
  ("GH: g_hi x <= g_max + 1", (fun st _ -> forall_cells st (fun x -> match x with TB _ -> chk (ghi st x <= gmax st + 1) (tcb_name x) | _ -> None)));
  ("OW: linked block has g_hi = its stamp", (fun st _ -> forall_cells st (fun x -> match x with TB b -> chk (not (st.g_lk b) || ghi st x = sB st b) (tcb_name x) | _ -> None)));
  ("PTR: prev of head / linked blocks points to tail or a block", (fun st _ -> forall_cells st (fun x ->
      let need = match x with THead -> true | TB b -> st.g_lk b | _ -> false in
      chk (not need || (match ptr (st.qprev x) with Some TTail | Some (TB _) -> true | _ -> false)) (tcb_name x))));
]

let thread_monitor (name : string) (f : state -> int -> pc -> tls -> string option) : string * (state -> int -> string option) =
  (name, (fun st nth -> first_some (List.init nth (fun i () -> let t = i + 1 in
     match f st t (st.th (nat_of_int t)) (st.tl (nat_of_int t)) with Some d -> Some (Printf.sprintf "T%d %s" t d) | None -> None))))

let hp_of = function P4 (_, hp) | P5 (_, hp) | P6 (_, hp, _) | P7 (_, hp, _) | P8 (_, hp, _) | P9 (_, hp, _, _) | P10 (_, hp, _, _) -> Some hp | _ -> None

let push_monitors = [
  thread_monitor "PH: pusher's recorded bounds" (fun st t p x -> match hp_of p with
    | None -> None
    | Some hp ->
      let hlo = int_of_n x.hlo and hgm = int_of_n x.hgm in
      first_some [
        (fun () -> chk (regfree st hlo (hgm + 1)) "regfree hlo hgm+1");
        (fun () -> chk (hlo <= sigma st (ptr hp)) "hlo <= sigma");
        (fun () -> match ptr hp with Some (TB y) -> chk (hlo <= ghi st (TB y)) "hlo <= g_hi" | _ -> None);
        (fun () -> chk (hgm <= gmax st && hlo <= hgm) "hgm <= g_max, hlo <= hgm");
        (fun () -> chk (not (ptr hp = Some TTail) || hlo = 0) "tail -> hlo = 0");
        (fun () -> chk (not (hp = st.qprev THead) || hlo = glo st THead) "valid -> hlo = g_lo head");
        (fun () -> chk (match ptr hp with Some TTail | Some (TB _) -> true | _ -> false) "hp points to tail/block");
        (fun () -> match p, x.cb with P10 _, Some b -> chk (ghi st (TB b) = hgm + 1) "P10: g_hi b = hgm+1" | _ -> None) ]);
]

let rm_monitors = [
  thread_monitor "L: remover's prev variable" (fun st t p x -> match p, x.cb with
    | Rm (q, f), Some b when not f.fnl && (match q with R1 | R2 -> false | _ -> true) ->
      let flo = int_of_n f.flo in
      first_some [
        (fun () -> chk (regfree st flo (sB st b)) "regfree flo S(B)");
        (fun () -> chk (flo <= sigma st (ptr f.fprev)) "flo <= sigma");
        (fun () -> match ptr f.fprev with Some (TB y) -> chk (flo <= ghi st (TB y)) "flo <= g_hi" | _ -> None);
        (fun () -> chk (not (ptr f.fprev = Some TTail) || flo = 0) "tail -> flo = 0");
        (fun () -> chk (match ptr f.fprev with Some TTail | Some (TB _) -> true | _ -> false) "prev points to tail/block") ]
    | _ -> None);
  thread_monitor "R: marked prev_prev" (fun st t p x -> match p, x.cb with
    | Rm ((RP3 | MN1 true | MN2 true | MN3 true | RP4), f), Some b when not f.fnl ->
      (match ptr f.fprev with
       | Some (TB y) -> chk (not (int_of_n (snd f.fpp) mod 2 = 1) || not (st.g_reg y) || sB st y > sB st b) "marked fpp -> not reg or newer"
       | _ -> None)
    | _ -> None);
  thread_monitor "SN: snapshot of next" (fun st t p x -> match p, x.cb with
    | Rm ((RP6 | RP7 | RP10 | MN1 false | MN2 false | MN3 false | RS1 | RS2 | SV1 | SV2 | SV3 | RN3 | RN4 | RN6 | RN7 | RN9 | RN10 | RN11), f), Some b ->
      let fnlo = int_of_n f.fnlo and fnhi = int_of_n f.fnhi in
      (match ptr f.fnext with
       | Some (TB n) ->
         first_some [
           (fun () -> chk (regfree st fnlo fnhi) "regfree fnlo fnhi");
           (fun () -> chk (fnlo <= sigma st (ptr f.fnp)) "fnlo <= sigma");
           (fun () -> match ptr f.fnp with Some (TB y) -> chk (fnlo <= ghi st (TB y)) "fnlo <= g_hi" | _ -> None);
           (fun () -> chk (not (ptr f.fnp = Some TTail) || fnlo = 0) "tail -> fnlo = 0");
           (fun () -> chk (not (st.qprev (TB n) = f.fnp) || glo st (TB n) = fnlo) "unchanged -> g_lo = fnlo");
           (fun () -> chk (not (int_of_n (snd f.fnp) mod 2 = 1 && fnhi mod 4 = 0 && fnhi <> 0) ||
                           (not (st.g_reg n && sB st n = fnhi) &&
                            List.for_all (fun b' -> not (st.g_lk (n_of_int b') && sB st (n_of_int b') = fnhi) || n_of_int b' = n) (blocks st))) "junction");
           (fun () -> match ptr f.flast with
              | Some l -> chk (not (st.qprev l = f.fnext) || glo st l <= fnhi) "J: g_lo last <= fnhi"
              | None -> None) ]
       | Some THead -> chk (fnlo = glo st THead || not (st.qprev THead = f.fnp)) "head snapshot"
       | _ -> None)
    | _ -> None);
]
let optflag = (try Sys.getenv "OPT" <> "0" with Not_found -> true)
let monitors : (string * (state -> int -> string option)) list = [
  ("tail stamp <= stamp of every block in a region", (fun st _ ->
     let ts = stamp st TTail in
     List.fold_left (fun a b -> if a <> None then a else
       if st.g_reg (n_of_int b) && ts > cst (stamp st (TB (n_of_int b))) then Some (Printf.sprintf "block %d" b) else None) None (blocks st)));
  ("tail stamp has no flags", (fun st _ -> if stamp st TTail mod 4 <> 0 then Some "" else None));
  ("no use after free", (fun st _ -> if st.g_uaf then Some "" else None));
  ("prev chain from head reaches tail", (fun st _ -> let (_, ok) = chain st in if ok then None else Some ""));
  ("every block in a region is on the prev chain", (fun st _ ->
     let (c, _) = chain st in
     List.fold_left (fun a b -> if a <> None then a else
       if st.g_reg (n_of_int b) && not (List.mem (TB (n_of_int b)) c) then Some (Printf.sprintf "block %d" b) else None) None (blocks st)));
  ("stamps of the blocks in a region decrease along the prev chain", (fun st _ ->
     let (c, _) = chain st in
     let regs = List.filter (function TB b -> st.g_reg b | _ -> false) c in
     let rec dec = function a :: (b :: _ as r) -> if cst (stamp st a) > cst (stamp st b) then dec r else false | _ -> true in
     if dec regs then None else Some ""));
  ("a block whose remove has returned (NotInList) is not on the prev chain", (fun st _ ->
     let (c, _) = chain st in
     List.fold_left (fun a x -> if a <> None then a else
       match x with TB b when stamp st x mod 2 = 1 -> Some (tcb_name x) | _ -> None) None c));
  ("tail->next points to head or to a linked block without NotInList", (fun st _ ->
     match fst (st.qnext TTail) with
     | Some (TB b) -> if st.g_lk b && stamp st (TB b) mod 2 = 0 then None else Some (tcb_name (TB b))
     | Some THead -> None | _ -> Some "null/tail"));
  ("DISABLED", (fun st _ ->
     List.fold_left (fun a x -> if a <> None then a else
       if false then
         (match fst (st.qnext (TB (n_of_int x))) with
          | Some (TB b) -> if st.g_lk b && stamp st (TB b) mod 2 = 0 then None else Some (Printf.sprintf "b%d -> b%d" x (int_of_n b))
          | Some THead -> None | _ -> Some "null/tail")
       else None) None (blocks st)));
  ("K: no block in a region has a stamp between sigma(x.prev) and S(x), x linked", (fun st _ ->
     let sigma = function Some TTail -> 0 | Some THead -> max_int | Some (TB b) -> cst (stamp st (TB b)) | None -> 0 in
     let regs = List.filter (fun b -> st.g_reg (n_of_int b)) (blocks st) in
     let chk x hi = let lo = sigma (fst (st.qprev x)) in
       List.fold_left (fun a b -> if a <> None then a else let s = cst (stamp st (TB (n_of_int b))) in if lo < s && s < hi then Some (Printf.sprintf "%s skips b%d" (tcb_name x) b) else None) None regs in
     let r = chk THead max_int in
     List.fold_left (fun a x -> if a <> None then a else if st.g_lk (n_of_int x) then chk (TB (n_of_int x)) (cst (stamp st (TB (n_of_int x)))) else None) r (blocks st)));
  ("NT: tail->next = x block -> x->prev points to tail", (fun st _ ->
     match fst (st.qnext TTail) with
     | Some (TB b) -> if fst (st.qprev (TB b)) = Some TTail then None else Some (tcb_name (TB b))
     | _ -> None));
  ("PH: prev of head / linked blocks points to tail or a block", (fun st _ ->
     let ok x = match fst (st.qprev x) with Some TTail | Some (TB _) -> true | _ -> false in
     if not (ok THead) then Some "head" else
     List.fold_left (fun a x -> if a <> None then a else if st.g_lk (n_of_int x) && not (ok (TB (n_of_int x))) then Some (string_of_int x) else None) None (blocks st)));
  ("prev of a linked block x points to an older incarnation or a re-pushed block", (fun st _ ->
     List.fold_left (fun a x -> if a <> None then a else if st.g_lk (n_of_int x) then
       (match fst (st.qprev (TB (n_of_int x))) with Some (TB y) -> if int_of_n y = x then Some (Printf.sprintf "b%d self" x) else None | _ -> None) else None) None (blocks st)));
  ("head->prev is never marked", (fun st _ -> if int_of_n (snd (st.qprev THead)) mod 2 = 1 then Some "" else None));
  ("tail->next is never marked", (fun st _ -> if int_of_n (snd (st.qnext TTail)) mod 2 = 1 then Some "" else None));
  ("all quiet: head->prev = tail and tail->next = head", (fun st nth ->
     let quiet = ref true in
     for t = 1 to nth do (match st.th (nat_of_int t) with Idle -> if int_of_nat (st.tl (nat_of_int t)).nest > 0 then quiet := false | _ -> quiet := false) done;
     if !quiet && not (fst (st.qprev THead) = Some TTail && fst (st.qnext TTail) = Some THead) then Some "" else None));
]


(* ---------------------------------------------------------------- exhaustive exploration of all schedules of a fixed program *)
let parse_op ncells (w : string) : op =
  match String.split_on_char ',' w with
  | ["repl"; c] -> ORepl (n_of_int (int_of_string c)) | ["clear"; c] -> OClear (n_of_int (int_of_string c))
  | ["read"; c] -> ORead (n_of_int (int_of_string c)) | ["hold"; c; g] -> OHold (n_of_int (int_of_string c), nat_of_int (int_of_string g))
  | ["drop"; g] -> ODrop (nat_of_int (int_of_string g)) | ["deref"; g] -> ODeref (nat_of_int (int_of_string g))
  | ["enter"] -> OEnter | ["leave"] -> OLeave | _ -> failwith ("op " ^ w)

let state_key (st : state) (nth : int) (nslots : int) (ncells : int) (rem : op list array) : string =
  let na = int_of_n st.nalloc in
  let ids = List.init na (fun i -> n_of_int i) in
  let tcbs = THead :: TTail :: List.map (fun b -> TB b) ids in
  let threads = List.init nth (fun i -> let t = nat_of_int (i + 1) in let x = st.tl t in
    (st.th t, x.cb, int_of_nat x.nest, x.rg, x.rl, List.init nslots (fun g -> x.gs (nat_of_int g)), x.hlo, x.hgm, rem.(i + 1))) in
  let cells = List.init ncells (fun c -> st.cells (n_of_int c)) in
  let per_tcb = List.map (fun x -> (st.qprev x, st.qnext x, st.qstamp x, st.g_lo x, st.g_hi x)) tcbs in
  let per_id = List.map (fun b -> (st.bstate b, st.nstamp b, st.nid b, st.g_owner b, st.g_reg b, st.g_lk b, st.g_life b, st.g_where b, int_of_nat (st.g_nfree b))) ids in
  Digest.string (Marshal.to_string (st.blist, st.gret, st.nalloc, st.nextid, st.g_max, st.g_uaf, threads, cells, per_tcb, per_id) [])

let exhaustive (progs : op list array) (nth : int) (nslots : int) (ncells : int) (maxstates : int) =
  let seen : (string, unit) Hashtbl.t = Hashtbl.create 1000003 in
  let stack = Stack.create () in
  let viol = Hashtbl.create 8 in
  let nstates = ref 0 and nedges = ref 0 and finals = ref 0 in
  let all_mon = monitors @ cell_monitors @ push_monitors @ rm_monitors in
  let push st rem =
    let k = state_key st nth nslots ncells rem in
    if not (Hashtbl.mem seen k) then begin
      Hashtbl.replace seen k (); incr nstates;
      List.iter (fun (name, f) -> match f st nth with
        | Some d when not (Hashtbl.mem viol name) -> Hashtbl.replace viol name (); Printf.printf "VIOLATION %s %s\n%s" name d (dump st nth)
        | _ -> ()) all_mon;
      Stack.push (st, rem) stack
    end in
  push (StampDefs.init (n_of_int ncells)) progs;
  while not (Stack.is_empty stack) && !nstates < maxstates do
    let (st, rem) = Stack.pop stack in
    let moved = ref false in
    for t = 1 to nth do
      (* start the next operation when idle *)
      let s1, rem1 =
        (match st.th (nat_of_int t) with
         | Idle -> (match rem.(t) with
             | o :: rest -> (match StampDefs.step_gen optflag (nat_of_int nslots) st (Start (nat_of_int t, o)) with
                 | Some (s', _) -> let r = Array.copy rem in r.(t) <- rest; Some s', r
                 | None -> if o = OExit then (let r = Array.copy rem in r.(t) <- rest; None, r) else None, rem)
             | [] -> None, rem)
         | _ -> Some st, rem) in
      match s1 with
      | None -> ()
      | Some s1 ->
        (match StampDefs.step_gen optflag (nat_of_int nslots) s1 (Step (nat_of_int t)) with
         | Some (s2, _) -> moved := true; incr nedges; push s2 rem1
         | None -> ())
    done;
    if not !moved then begin
      incr finals;
      for t = 1 to nth do
        (match st.th (nat_of_int t) with
         | Idle -> ()
         | _ -> if not (Hashtbl.mem viol "stuck") then begin Hashtbl.replace viol "stuck" (); Printf.printf "VIOLATION stuck T%d\n%s" t (dump st nth) end)
      done
    end
  done;
  Printf.printf "exhaustive: states %d transitions %d final states %d violations %d%s\n" !nstates !nedges !finals (Hashtbl.length viol)
    (if Stack.is_empty stack then "" else " (INCOMPLETE: state limit reached)")

let () =
  if Array.length Sys.argv > 1 && Sys.argv.(1) = "exhaust" then begin
    (* explore exhaust <maxstates> <cells> <slots> "op op .." "op op .." ..   (one string per thread, ops as read,0 / hold,0,1 / enter ...) *)
    let maxstates = int_of_string Sys.argv.(2) and ncells = int_of_string Sys.argv.(3) and nslots = int_of_string Sys.argv.(4) in
    let nth = Array.length Sys.argv - 5 in
    let progs = Array.init (nth + 1) (fun t -> if t = 0 then [] else
      (List.map (parse_op ncells) (List.filter (fun w -> w <> "") (String.split_on_char ' ' Sys.argv.(4 + t)))) @ [OExit]) in
    exhaustive progs nth nslots ncells maxstates; exit 0
  end
let () =
  let seed = int_of_string Sys.argv.(1) and runs = int_of_string Sys.argv.(2) and nth = int_of_string Sys.argv.(3)
  and nops = int_of_string Sys.argv.(4) and sw = int_of_string Sys.argv.(5) in
  let rng = Random.State.make [| seed |] in
  let nslots = 2 and ncells = 2 in
  let steps = ref 0 and viol = Hashtbl.create 8 in
  for run = 1 to runs do
    let prog = Array.init (nth + 1) (fun t -> if t = 0 then ref [] else
      ref (List.init nops (fun _ ->
        let k = Random.State.int rng 100 and c = n_of_int (Random.State.int rng ncells) and s = nat_of_int (Random.State.int rng nslots) in
        if k < 15 then ORepl c else if k < 20 then OClear c else if k < 60 then ORead c else if k < 72 then OHold (c, s)
        else if k < 84 then ODrop s else if k < 92 then OEnter else OLeave) @ [OExit])) in
    let st = ref (StampDefs.init (n_of_int ncells)) in
    let cur = ref 1 in
    let trace = ref [] in
    let stop = ref false in
    while not !stop do
      let attempt t =
        let s0 = !st in
        let s1, rest =
          (match s0.th (nat_of_int t) with
           | Idle -> (match !(prog.(t)) with
               | o :: rest -> (match StampDefs.step_gen optflag (nat_of_int nslots) s0 (Start (nat_of_int t, o)) with Some (s', _) -> Some s', Some rest | None -> (if o = OExit then (prog.(t) := rest); None, None))
               | [] -> None, None)
           | _ -> Some s0, None) in
        match s1 with
        | None -> None
        | Some s1 -> (match StampDefs.step_gen optflag (nat_of_int nslots) s1 (Step (nat_of_int t)) with Some (s2, _) -> Some (s2, rest) | None -> None) in
      let cands = List.filter (fun t -> attempt t <> None) (List.init nth (fun i -> i + 1)) in
      if cands = [] then begin
        stop := true;
        (* stuck ? *)
        for t = 1 to nth do
          (match (!st).th (nat_of_int t) with
           | Idle -> ()
           | _ -> if not (Hashtbl.mem viol "stuck") then begin Hashtbl.replace viol "stuck" (); Printf.printf "VIOLATION stuck (run %d, T%d)\n%s" run t (dump !st nth) end)
        done
      end else begin
        let t = if List.mem !cur cands && Random.State.int rng 100 >= sw then !cur else List.nth cands (Random.State.int rng (List.length cands)) in
        cur := t;
        (match attempt t with
         | Some (s2, rest) ->
           let before = !st in
           st := s2; (match rest with Some r -> prog.(t) := r | None -> ()); incr steps; trace := t :: !trace;
           List.iter (fun (name, f) ->
             match f s2 nth with
             | Some d when not (Hashtbl.mem viol name) ->
               Hashtbl.replace viol name ();
               Printf.printf "VIOLATION %s %s (run %d, step %d by T%d)\nbefore:\n%safter:\n%s" name d run (List.length !trace) t (dump before nth) (dump s2 nth)
             | _ -> ()) (monitors @ cell_monitors @ push_monitors @ rm_monitors)
         | None -> stop := true)
      end
    done
  done;
  Printf.printf "runs %d steps %d violations %d\n" runs !steps (Hashtbl.length viol)
